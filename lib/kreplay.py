"""Replay of Kani counterexamples against the native build.

confirm(record): re-run the failed harness with the stock `cargo kani` driver and
`-Z concrete-playback --concrete-playback=inplace` (on a backup-protected copy of the harness
file), run the generated unit test natively with `cargo kani playback`, and keep the test text
as /verif/replay/<prop>/<harness>.rs. Only a natively failing test confirms a violation.
"""
import json, os, re, shutil, subprocess, time
import kengine as K


def _run(cmd, cwd, timeout):
    try:
        p = subprocess.run(cmd, cwd=cwd, env=K._env(), stdout=subprocess.PIPE, stderr=subprocess.STDOUT,
                           text=True, timeout=timeout)
        return p.returncode, p.stdout
    except subprocess.TimeoutExpired as e:
        return -999, (e.stdout or "") if isinstance(e.stdout, str) else ""


def harness_file(rec):
    # pretty name ...::verif_kani_xxx::harness ; the file comes from kani metadata when present
    return rec.get("original_file")


def confirm(rec, scratch, verif_root, timeout=None):
    if timeout is None:
        # stock cargo-kani with playback is slower than our pipeline: allow 4x, within [600 s, 2400 s]
        timeout = int(min(2400, max(600, 4 * float(rec.get("cbmc_wall_s") or 150))))
    prop = rec["prop"]
    hname = rec["harness"]
    crate = rec["crate"]
    cdir = os.path.join(K.REPO, K.CRATE_DIRS[crate])
    out = {"confirmed": None, "path": "", "why": ""}
    # locate the harness source file
    src = None
    for root, _, files in os.walk(os.path.join(verif_root, "kani")):
        for f in files:
            p = os.path.join(root, f)
            try:
                if re.search(r"fn\s+%s\s*\(" % re.escape(hname), open(p).read()):
                    src = p
            except Exception:
                pass
    if src is None:
        out["why"] = "harness source not found"
        return out
    backup = src + ".verif-backup"
    shutil.copy2(src, backup)
    rdir = os.path.join(verif_root, "replay", prop)
    os.makedirs(rdir, exist_ok=True)
    rpath = os.path.join(rdir, hname + ".rs")
    try:
        cmd = ["cargo", "kani", "--target-dir", os.path.join(scratch, "replay-target"), "-Z", "stubbing",
               "-Z", "unstable-options", "-Z", "concrete-playback", "--concrete-playback=inplace",
               "--harness", hname, "--exact"] if False else \
              ["cargo", "kani", "--target-dir", os.path.join(scratch, "replay-target"), "-Z", "stubbing",
               "-Z", "unstable-options", "-Z", "concrete-playback", "--concrete-playback=inplace",
               "--harness", hname, "--no-assertion-reach-checks"]
        if crate == "tantivy":
            cmd.append("--no-default-features")
        import obligations as O
        flags = O.cbmc_flags(rec)
        us = rec.get("unwindset") or []
        cb = list(flags)
        if us:
            cb += ["--unwindset", ",".join(us)]
        if cb:
            cmd += ["--cbmc-args"] + cb
        rc, log = _run(cmd, cdir, timeout)
        official_failed = "VERIFICATION:- FAILED" in log
        new = open(src).read()
        old = open(backup).read()
        m = re.search(r"fn (kani_concrete_playback_\w+)", new)
        if rc == -999:
            # stock run exceeded its budget: keep our own CBMC verdict, say so
            with open(rpath, "w") as f:
                f.write("// stock cargo-kani replay exceeded %d s; failing checks of our CBMC run:\n" % timeout)
                for fl in rec.get("failed", []):
                    f.write("// %s %s:%s %s\n" % (fl.get("class"), fl.get("file"), fl.get("line"), fl.get("desc")))
            out.update(confirmed=None, path=rpath, why="stock cargo-kani replay timed out; violation rests on our CBMC run only")
            return out
        if not official_failed:
            out.update(confirmed=False, why="stock cargo-kani run does not report FAILED for this harness")
            return out
        if not m or new == old:
            # no playback test could be generated: keep the failing checks as the replay artefact
            with open(rpath, "w") as f:
                f.write("// no concrete playback test was generated; failing checks reported by stock cargo-kani:\n")
                for line in log.splitlines():
                    if "Failed Checks" in line or line.strip().startswith("File:"):
                        f.write("// " + line + "\n")
            out.update(confirmed=None, path=rpath, why="stock kani confirms FAILED; playback generation unavailable")
            return out
        # the generated tests are inserted after the harness: pull them out by shape
        tests = re.findall(r"((?:///[^\n]*\n|\n)*#\[test\]\nfn (kani_concrete_playback_\w+)\(\s*\) \{\n.*?\n\}\n)", new, re.S)
        tests = [(blk, name) for blk, name in tests if name not in old]
        # prefer the test of a failing check over cover witnesses
        fail_tests = [(b, n) for b, n in tests if "Check for `cover`" not in b]
        if not fail_tests:
            out.update(confirmed=None, path="", why="only cover playback tests were generated")
            return out
        with open(rpath, "w") as f:
            f.write("// concrete playback generated by Kani for harness %s (property %s)\n" % (hname, prop))
            f.write("// run: ./check %s --replay %s\n" % (prop, rpath))
            f.write("// harness file: %s ; crate: %s\n" % (src, crate))
            for b, n in fail_tests:
                f.write(b.lstrip("\n") + "\n")
        # keep only the failing-check tests in the source for the native run
        with open(src, "w") as f:
            f.write(old + "\n" + "\n".join(b for b, n in fail_tests))
        test = fail_tests[0][1]
        rc2, log2 = _run(["cargo", "kani", "playback", "-Z", "concrete-playback", "--lib"] +
                         (["--no-default-features"] if crate == "tantivy" else []) + ["--", test], cdir, timeout)
        failed_native = bool(re.search(r"test .*%s.* FAILED|panicked at" % re.escape(test), log2))
        passed_native = bool(re.search(r"test result: ok", log2)) and not failed_native
        with open(rpath, "a") as f:
            f.write("\n// native run (dev profile):\n")
            for line in log2.splitlines()[-25:]:
                f.write("// " + line + "\n")
        if failed_native:
            out.update(confirmed=True, path=rpath, why="playback test fails natively")
        elif passed_native:
            out.update(confirmed=False, path=rpath, why="playback test passes natively")
        else:
            out.update(confirmed=None, path=rpath, why="playback could not be run; stock kani confirms FAILED")
        return out
    finally:
        shutil.copy2(backup, src)
        os.remove(backup)
        shutil.rmtree(os.path.join(cdir, "target", "kani"), ignore_errors=True)


def replay_file(prop, path):
    """./check <prop> --replay <path>: re-run a saved playback test natively."""
    txt = open(path).read()
    m = re.search(r"// harness file: (\S+) ; crate: (\S+)", txt)
    t = re.search(r"fn (kani_concrete_playback_\w+)", txt)
    if not m or not t:
        print("replay file has no playback test (trace-only artefact):")
        print(txt)
        return 2
    src, crate = m.group(1), m.group(2)
    cdir = os.path.join(K.REPO, K.CRATE_DIRS[crate])
    body = txt.split("\n// native run")[0]
    body = "\n".join(l for l in body.split("\n") if not l.startswith("// "))
    backup = src + ".verif-backup"
    shutil.copy2(src, backup)
    try:
        with open(src, "a") as f:
            f.write("\n" + body + "\n")
        rc, log = _run(["cargo", "kani", "playback", "-Z", "concrete-playback", "--lib"] +
                       (["--no-default-features"] if crate == "tantivy" else []) + ["--", t.group(1)], cdir, 3600)
        print("\n".join(log.splitlines()[-30:]))
        if re.search(r"FAILED|panicked at", log):
            print("VIOLATION property=%s replay=%s" % (prop, path))
            return 1
        return 0
    finally:
        shutil.copy2(backup, src)
        os.remove(backup)
        shutil.rmtree(os.path.join(cdir, "target", "kani"), ignore_errors=True)
