"""Engine K: build Kani harnesses of /repo once, run CBMC per harness under our own control.

Pipeline per run (nothing cached between runs):
  1. `cargo kani --only-codegen` on the crate in /repo (hooks compile /verif/kani/... in-crate)
     into a scratch target dir  -> one goto symbol table per harness + kani-metadata.json
  2. per harness (parallel): goto-cc link with kani_lib.c, goto-instrument passes (the same
     ones kani-driver runs), `cbmc --json-ui` with the harness' unwind bound, optional
     per-loop --unwindset (loop ids from `cbmc --show-loops`, matched by regex), under
     RLIMIT_AS + timeout
  3. interpret the CBMC properties the way kani-driver does (cover / reachability / unwinding /
     unsupported constructs)
Verdicts: discharged | violated | inconclusive(reason).
"""
import json, os, re, resource, shutil, subprocess, sys, tempfile, threading, time, glob
from concurrent.futures import ThreadPoolExecutor

KANI_LIB_C = os.path.expanduser("~/.kani/kani-0.68.0/library/kani/kani_lib.c")
REPO = os.environ.get("VERIF_REPO", "/repo")

CRATE_DIRS = {
    "tantivy": "",
    "tantivy-common": "common",
    "tantivy-bitpacker": "bitpacker",
    "tantivy-columnar": "columnar",
    "tantivy-sstable": "sstable",
    "tantivy-stacker": "stacker",
    "tantivy-query-grammar": "query-grammar",
    "ownedbytes": "ownedbytes",
    "tantivy-tokenizer-api": "tokenizer-api",
}

CBMC_BASE = ["--no-malloc-may-fail", "--no-undefined-shift-check", "--no-signed-overflow-check",
             "--nan-check", "--no-self-loops-to-assumptions", "--no-pointer-primitive-check",
             "--object-bits", "16", "--sat-solver", "cadical", "--slice-formula"]


def log(*a):
    print(*a, file=sys.stderr, flush=True)


def _env():
    e = dict(os.environ)
    e["CARGO_NET_OFFLINE"] = "true"
    e.pop("RUSTUP_TOOLCHAIN", None)
    return e


def build(crate, harness_filters, target_dir, features=None, extra_kani_flags=()):
    """Compile the crate's harnesses (codegen only). Returns (list of harness metadata, build log)."""
    cdir = os.path.join(REPO, CRATE_DIRS[crate])
    cmd = ["cargo", "kani", "--only-codegen", "--target-dir", target_dir,
           "-Z", "stubbing", "-Z", "unstable-options"]
    if crate == "tantivy":
        cmd += ["--no-default-features"]
    if features:
        cmd += ["--features", features]
    for f in harness_filters:
        cmd += ["--harness", f]
    cmd += list(extra_kani_flags)
    t0 = time.time()
    p = subprocess.run(cmd, cwd=cdir, env=_env(), stdout=subprocess.PIPE, stderr=subprocess.STDOUT, text=True)
    out = p.stdout
    if p.returncode != 0:
        return None, out, time.time() - t0
    metas = glob.glob(os.path.join(target_dir, "kani", "*", "debug", "build", "*", "*", "out", "*.kani-metadata.json"))
    metas += glob.glob(os.path.join(target_dir, "kani", "*", "debug", "deps", "*.kani-metadata.json"))
    harnesses = {}
    for m in sorted(metas, key=os.path.getmtime):
        try:
            d = json.load(open(m))
        except Exception:
            continue
        cn = d.get("crate_name", "").replace("_", "-")
        if cn.replace("-", "_") != crate.replace("-", "_"):
            continue
        for h in d.get("proof_harnesses", []):
            if os.path.exists(h["goto_file"]):
                harnesses[h["pretty_name"]] = h
    return list(harnesses.values()), out, time.time() - t0


def _limits(mem_gb):
    def f():
        lim = int(mem_gb * (1 << 30))
        resource.setrlimit(resource.RLIMIT_AS, (lim, lim))
        os.setsid()
    return f


def _run(cmd, timeout, mem_gb, stdout_path=None):
    t0 = time.time()
    so = open(stdout_path, "w") if stdout_path else subprocess.PIPE
    try:
        p = subprocess.Popen(cmd, stdout=so, stderr=subprocess.PIPE, preexec_fn=_limits(mem_gb), text=True)
        try:
            out, err = p.communicate(timeout=timeout)
            rc = p.returncode
        except subprocess.TimeoutExpired:
            try:
                os.killpg(p.pid, 9)
            except Exception:
                p.kill()
            out, err = p.communicate()
            rc = -999
    finally:
        if stdout_path:
            so.close()
    return rc, out, err, time.time() - t0


def show_loops(goto, mem_gb=8):
    rc, out, err, _ = _run(["cbmc", "--show-loops", goto], 300, mem_gb)
    loops = []
    cur = None
    for line in (out or "").splitlines():
        m = re.match(r"Loop (\S+):", line)
        if m:
            cur = m.group(1)
            loops.append(cur)
    return loops


def prepare(h, workdir):
    """goto-cc + goto-instrument like kani-driver. Returns path of the final goto binary."""
    sym = h["goto_file"]
    out = os.path.join(workdir, re.sub(r"[^A-Za-z0-9_]", "_", h["pretty_name"]) + ".out")
    steps = [
        ["goto-cc", sym, KANI_LIB_C, "-o", out],
        ["goto-cc", out, "--function", h["mangled_name"], "-o", out],
        ["goto-instrument", "--add-library", "--no-malloc-may-fail", out, out],
        ["goto-instrument", "--generate-function-body-options", "assert-false-assume-false",
         "--generate-function-body", ".*", "--drop-unused-functions", out, out],
        ["goto-instrument", "--ensure-one-backedge-per-target", out, out],
    ]
    for s in steps:
        rc, o, e, _ = _run(s, 600, 16)
        if rc != 0:
            raise RuntimeError("prepare failed: %s\n%s\n%s" % (" ".join(s), o, e))
    return out


PTR_FILTER = ("pointer_arithmetic", "pointer_primitives")


def prop_class(name):
    # "<function>.<class>.<n>"
    parts = name.rsplit(".", 2)
    return parts[1] if len(parts) == 3 else ""


def interpret(cbmc_items, expected_panics=()):
    """Apply kani-driver's post-processing to the CBMC json-ui items."""
    res = None
    stats = {}
    msgs = []
    for it in cbmc_items:
        if not isinstance(it, dict):
            continue
        if "result" in it:
            res = it["result"]
        if "messageText" in it:
            t = it["messageText"]
            msgs.append(t)
            m = re.match(r"Generated (\d+) VCC\(s\), (\d+) remaining after simplification", t)
            if m:
                stats["vccs"] = int(m.group(1)); stats["vccs_remaining"] = int(m.group(2))
            m = re.match(r"size of program expression: (\d+) steps", t)
            if m:
                stats["program_steps"] = int(m.group(1))
            m = re.match(r"Runtime Symex: ([\d.e+-]+)s", t)
            if m:
                stats["symex_s"] = float(m.group(1))
            m = re.match(r"Runtime Solver: ([\d.e+-]+)s", t)
            if m:
                stats["solver_s"] = stats.get("solver_s", 0.0) + float(m.group(1))
            m = re.match(r"(\d+) variables, (\d+) clauses", t)
            if m:
                stats["sat_vars"] = int(m.group(1)); stats["sat_clauses"] = int(m.group(2))
    if res is None:
        return {"verdict": "inconclusive", "reason": "no result array in CBMC output", "stats": stats,
                "tail": msgs[-5:]}
    reach = {}
    props = []
    for p in res:
        name = p.get("property", "")
        cls = prop_class(name)
        if cls == "reachability_check":
            reach[p.get("description", "")] = p.get("status")
        else:
            props.append((name, cls, p))
    failed, covers, unwinding_failed, unsupported, unreachable = [], [], [], [], 0
    expected = []
    harness_asserts = 0
    harness_unreachable = []
    n_checks = 0
    for name, cls, p in props:
        desc = p.get("description", "")
        st = p.get("status")
        loc = p.get("sourceLocation", {})
        m = re.match(r"\[(KANI_CHECK_ID_[^\]]+)\]\s*(.*)", desc, re.S)
        cid = None
        if m:
            cid, desc = m.group(1), m.group(2)
        if cls in PTR_FILTER:
            continue
        if cls == "cover":
            covers.append({"desc": desc, "satisfied": st == "FAILURE", "line": loc.get("line")})
            continue
        if cls == "code_coverage":
            continue
        n_checks += 1
        in_harness = "/verif/kani/" in (loc.get("file") or "")
        if in_harness and cls == "assertion":
            harness_asserts += 1
        if cid and reach.get(cid) == "SUCCESS":
            unreachable += 1
            if in_harness and cls == "assertion":
                harness_unreachable.append("%s:%s" % (os.path.basename(loc.get("file", "")), loc.get("line")))
            continue
        if st == "FAILURE":
            rec = {"property": name, "class": cls, "desc": desc[:300],
                   "file": loc.get("file"), "line": loc.get("line"), "function": loc.get("function")}
            key = "%s %s:%s %s" % (desc, loc.get("file"), loc.get("line"), loc.get("function"))
            if any(re.search(rx, key) for rx in expected_panics):
                expected.append(rec)
            elif cls == "unwind" or "unwinding assertion" in desc:
                unwinding_failed.append(rec)
            elif cls == "unsupported_construct" or "is not currently supported by Kani" in desc:
                unsupported.append(rec)
            else:
                failed.append(rec)
    out = {"stats": stats, "checks": n_checks, "unreachable_checks": unreachable,
           "harness_asserts": harness_asserts, "harness_asserts_unreachable": harness_unreachable,
           "covers": covers, "failed": failed, "expected_panics_hit": expected, "unwinding_failed": unwinding_failed,
           "unsupported": unsupported}
    if failed:
        out["verdict"] = "violated"
    elif unsupported:
        out["verdict"] = "inconclusive"; out["reason"] = "unsupported construct reachable"
    elif unwinding_failed:
        out["verdict"] = "inconclusive"; out["reason"] = "unwinding assertion failed (bound too small)"
    else:
        out["verdict"] = "discharged"
    return out


def parse_json_stream(path):
    txt = open(path).read()
    try:
        return json.loads(txt)
    except Exception:
        # truncated (timeout / oom): salvage the message items
        items = []
        dec = json.JSONDecoder()
        i = txt.find("[")
        i += 1
        n = len(txt)
        while i < n:
            while i < n and txt[i] in " \r\n\t,":
                i += 1
            if i >= n or txt[i] == "]":
                break
            try:
                obj, j = dec.raw_decode(txt, i)
            except Exception:
                break
            items.append(obj)
            i = j
        return items


def run_harness(h, workdir, timeout=600, mem_gb=20, unwindset=(), unwind=None, extra_cbmc=(), expected_panics=()):
    """unwindset: list of (regex on loop id, bound)."""
    t0 = time.time()
    rec = {"harness_pretty": h["pretty_name"], "unwind": unwind if unwind is not None else h["attributes"].get("unwind_value"),
           "stubs": [s.get("original", s) if isinstance(s, dict) else s for s in h["attributes"].get("stubs", [])]}
    try:
        goto = prepare(h, workdir)
    except Exception as e:
        rec.update(verdict="inconclusive", reason="prepare: %s" % str(e)[:500], wall_s=time.time() - t0)
        return rec
    cmd = ["cbmc"] + CBMC_BASE
    uw = rec["unwind"]
    if uw is not None:
        cmd += ["--unwind", str(uw)]
    us = []
    if unwindset:
        loops = show_loops(goto)
        for lid in loops:
            for rx, b in unwindset:
                if re.search(rx, lid):
                    us.append("%s:%d" % (lid, b))
                    break
        if us:
            cmd += ["--unwindset", ",".join(us)]
        rec["unwindset"] = us
    cmd += list(extra_cbmc)
    cmd += [goto, "--verbosity", "9", "--json-ui"]
    outp = goto + ".cbmc.json"
    timed = ["/usr/bin/time", "-f", "MAXRSS_KB=%M", "-o", goto + ".time"] + cmd
    rc, _, err, wall = _run(timed, timeout, mem_gb, stdout_path=outp)
    rss = None
    try:
        m = re.search(r"MAXRSS_KB=(\d+)", open(goto + ".time").read())
        if m:
            rss = int(m.group(1)) // 1024
    except Exception:
        pass
    items = parse_json_stream(outp)
    r = interpret(items, expected_panics)
    rec.update(r)
    rec["cbmc_rc"] = rc
    rec["cbmc_wall_s"] = round(wall, 1)
    rec["peak_rss_mb"] = rss
    if rc == -999:
        rec["verdict"] = "inconclusive"; rec["reason"] = "timeout after %ds" % timeout
    elif rc not in (0, 10):
        txt = (err or "")[-400:]
        rec["verdict"] = "inconclusive"
        rec["reason"] = "cbmc exit %s (out of memory / error): %s" % (rc, txt.strip()[-200:])
    rec["wall_s"] = round(time.time() - t0, 1)
    # keep disk small
    for f in (goto, outp, goto + ".time"):
        try:
            if rec["verdict"] != "violated" or f != outp:
                os.remove(f)
        except Exception:
            pass
    return rec


def _mem_available_gb():
    try:
        for l in open("/proc/meminfo"):
            if l.startswith("MemAvailable:"):
                return int(l.split()[1]) / 1048576.0
    except Exception:
        pass
    return 32.0


def run_many(jobs, workers):
    """jobs: list of (fn, args, kwargs). Longest first is the caller's business.
    Admission control on memory: a job whose address-space cap (`mem_gb`) is above the default
    is expected to use most of it; it only starts when the expected use of the running jobs
    leaves room (or nothing is running), so several 30-40 GB obligations of a thorough tier do
    not push each other into the kernel's OOM killer (which would read as 'inconclusive')."""
    import threading
    results = [None] * len(jobs)
    budget = max(8.0, _mem_available_gb() * 0.9)
    cv = threading.Condition()
    state = {"used": 0.0, "running": 0}

    def weight(k):
        cap = float(k.get("mem_gb", 14) or 14)
        return 3.0 if cap <= 14 else cap * 0.8

    def guarded(fn, a, k):
        w = weight(k)
        with cv:
            while state["running"] > 0 and state["used"] + w > budget:
                cv.wait(timeout=5)
            state["used"] += w; state["running"] += 1
        try:
            return fn(*a, **k)
        finally:
            with cv:
                state["used"] -= w; state["running"] -= 1
                cv.notify_all()

    with ThreadPoolExecutor(max_workers=workers) as ex:
        futs = {ex.submit(guarded, fn, a, k): i for i, (fn, a, k) in enumerate(jobs)}
        for f, i in futs.items():
            try:
                results[i] = f.result()
            except Exception as e:
                results[i] = {"verdict": "inconclusive", "reason": "driver exception: %r" % e}
    return results
