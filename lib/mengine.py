"""Engine M driver: dump MIR of /repo (nightly), parse, and discharge mirproto obligations."""
import os, sys, json, time, re
HERE = os.path.dirname(os.path.abspath(__file__))
sys.path.insert(0, os.path.join(HERE, "..", "mirproto"))
import mir as MIR
import encode as ENC

REPO = os.environ.get("VERIF_REPO", "/repo")
_CACHE = {}


def load_mir_crate(scratch, subdir):
    """MIR of a workspace member (its own `cargo +nightly rustc --lib`), cached per run"""
    key = "funcs:" + subdir
    if key not in _CACHE:
        rc, txt, err, dt = MIR.dump(os.path.join(REPO, subdir), scratch, features=(), default_features=True)
        _CACHE[key] = MIR.parse(txt) if rc == 0 and len(txt) > 1000 else None
        _CACHE["err:" + subdir] = err[-500:]
    return _CACHE[key]


def load_mir(scratch):
    if "funcs" in _CACHE:
        return _CACHE["funcs"], _CACHE["info"]
    pre = os.environ.get("VERIF_MIR_FILE")
    if pre and os.path.exists(pre):
        txt = open(pre).read(); rc = 0; dt = 0.0; err = ""
    else:
        rc, txt, err, dt = MIR.dump(REPO, scratch)
    if rc != 0 or len(txt) < 1000:
        _CACHE["funcs"] = None
        _CACHE["info"] = {"ok": False, "err": err[-3000:], "dump_s": dt}
        return None, _CACHE["info"]
    t0 = time.time()
    funcs = MIR.parse(txt)
    _CACHE["funcs"] = funcs
    _CACHE["info"] = {"ok": True, "dump_s": round(dt, 1), "parse_s": round(time.time() - t0, 1),
                      "bodies": sum(len(v) for v in funcs.values()), "mir_bytes": len(txt)}
    return funcs, _CACHE["info"]


def find_roots(funcs, rx):
    r = re.compile(rx)
    return [n for n in funcs if r.search(n)]


def run_scan(funcs, o, tier):
    """one `never` query per function in scope that contains a matching event"""
    spec = dict(o["spec"])
    spec.setdefault("auto_inline", False); spec.setdefault("depth", 0)
    rec = dict(o); rec.pop("spec", None)
    rec["spec"] = o["id"]; rec["native"] = spec.get("native")
    t0 = time.time()
    scope = [re.compile(r) for r in spec["scope"]]
    excl = [re.compile(r) for r in spec.get("exclude", [r"::tests?::", r"::test::"])]
    ev_name = spec["checks"][0][1]
    queries = 0; solver_s = 0.0; failed = []; scanned = 0; with_event = 0
    for name, fl in funcs.items():
        if not any(r.search(name) for r in scope) or any(r.search(name) for r in excl):
            continue
        for f in fl:
            scanned += 1
            g = ENC.Graph(funcs, REPO, spec)
            try:
                g.expand(f, (), 0, [])
            except Exception:
                continue
            counts = ENC.match_events(g, spec["events"])
            if counts.get(ev_name, 0) == 0:
                continue
            with_event += 1
            lines, bad, notes = ENC.build_smt(g, spec, ("never", ev_name))
            res, out, dt, q = ENC.solve(lines, bad)
            queries += 1; solver_s += dt
            if res == "sat":
                r2, _, dt2, _ = ENC.solve(lines, bad, solver="cvc5")
                queries += 1; solver_s += dt2
                if r2 == "sat":
                    path, tags = ENC.model_path(g, out)
                    steps = [s for s in ENC.describe_path(g, path, tags) if s.get("events")]
                    failed.append({"class": "mirproto", "desc": "%s reachable in %s" % (ev_name, name), "file": name, "line": None, "path": steps})
    # vacuity witness: with the allow-list switched off the detector must find the documented sinks
    wspec = dict(spec)
    wspec["events"] = {k: {kk: vv for kk, vv in v.items() if kk != "allow"} for k, v in spec["events"].items()}
    sinks_found = 0
    for name, fl in funcs.items():
        if not any(r.search(name) for r in scope) or any(r.search(name) for r in excl):
            continue
        for f in fl:
            g = ENC.Graph(funcs, REPO, wspec)
            try:
                g.expand(f, (), 0, [])
            except Exception:
                continue
            if ENC.match_events(g, wspec["events"]).get(ev_name, 0) == 0:
                continue
            lines, bad, notes = ENC.build_smt(g, wspec, ("never", ev_name))
            res, out, dt, q = ENC.solve(lines, bad)
            queries += 1; solver_s += dt
            if res == "sat":
                sinks_found += 1
    verdict = "violated" if failed else "discharged"
    rec.update(verdict=verdict, reason=None, queries=queries, solver_s=round(solver_s, 3), failed=failed,
               witnessed=scanned > 0 and sinks_found > 0 and verdict == "discharged",
               detail={"functions_scanned": scanned, "functions_with_candidate_event": with_event, "documented_sinks_reached_without_allow_list": sinks_found, "allow_list": spec["events"][ev_name].get("allow")},
               functions=["%d function bodies matching %s" % (scanned, spec["scope"])], wall_s=round(time.time() - t0, 2),
               bounds="per function, loops unrolled %d, no inlining" % spec.get("unroll", 2))
    return rec


def _smt(query, solver):
    import subprocess
    cmd = ["z3", "-in", "-T:120"] if solver == "z3" else ["cvc5", "--lang", "smt2", "--produce-models", "--tlimit=120000"]
    t0 = time.time()
    p = subprocess.run(cmd, input=query, stdout=subprocess.PIPE, stderr=subprocess.PIPE, text=True)
    out = p.stdout.strip()
    first = out.split("\n")[0] if out else "error"
    if "(error" in out and first not in ("sat", "unsat"):
        first = "error"
    return first, out, time.time() - t0


def run_bounds(funcs, o, tier):
    """kind="bounds": the bound transformations of a mixed-type numeric range query (closures handed
    to BoundsRange::transform_inner / map_bound inside `parent`) are executed as bit-vector programs
    (mirproto/bv.py); for every query-literal q and column value c (64-bit, symbolic) a column value
    must satisfy the transformed bound in the order-preserving u64 space iff it satisfies the
    original bound numerically - per side (lower / upper) and per kind (inclusive / exclusive)."""
    import bv as BVX
    spec = o["spec"]
    rec = dict(o); rec.pop("spec", None); rec["spec"] = o["id"]
    t0 = time.time()
    roots = find_roots(funcs, spec["parent"])
    if len(roots) != 1:
        rec.update(verdict="inconclusive", reason="parent pattern resolves to %d functions" % len(roots), wall_s=0)
        return rec
    module = roots[0].rsplit("::", 1)[0] + "::"
    # closure identity -> body, for every closure of the module (the transformers may live in helpers)
    by_ident = {}
    for name, fl in funcs.items():
        if name.startswith(module) and "{closure#" in name:
            for f in fl:
                m = re.match(r"_1: (?:&mut |&)?(\{closure@[^}]*\})", f.params or "")
                if m:
                    by_ident[m.group(1)] = f
    # bound transformations of integer literals: in the parent or in any function of its module
    sites = {}
    for name, fl in funcs.items():
        if not name.startswith(module) or "{closure#" in name:
            continue
        for fbody in fl:
            for b in fbody.blocks.values():
                if b.kind != "call":
                    continue
                m = re.match(r"tantivy_common::bounds::BoundsRange::<(i64|u64)>::(transform_inner|map_bound)::<u64, (.*)>$", b.call["callee"])
                if not m:
                    continue
                idents = re.findall(r"\{closure@[^}]*\}", m.group(3))
                if not idents:
                    continue
                line = int(re.search(r"\.rs:(\d+):", idents[0]).group(1))
                sites.setdefault(m.group(1), []).append((line, m.group(2), idents))
    queries = 0; solver_s = 0.0; failed = []; detail = {"arms": []}; encoded = set(); summaries = set()
    verdict = "discharged"; reason = None; witnessed = True
    SIGNED = {"i64": True, "u64": False}
    OTHER = {"i64": "u64", "u64": "i64"}
    for from_ty in spec["literals"]:
        arms = sorted(sites.get(from_ty, []))
        n_t = len([a_ for a_ in arms if a_[1] == "transform_inner"]); n_m = len([a_ for a_ in arms if a_[1] == "map_bound"])
        if n_t != 1 or n_m < 1:
            verdict = "inconclusive"; reason = "bound transformations of %s literals changed shape: %d transform_inner and %d map_bound sites in %s" % (from_ty, n_t, n_m, module)
            continue
        decided_same = 0
        for (line, kind, idents) in arms:
            # a cross-type integer column goes through transform_inner; map_bound serves the column of
            # the literal's own type (and the f64 column, whose closure converts to float: skipped)
            col = OTHER[from_ty] if kind == "transform_inner" else from_ty
            ex = BVX.Exec(funcs)
            q = BVX.BV("q", 64, SIGNED[from_ty])
            try:
                bodies = [by_ident[i] for i in idents]
                paths = [ex.run(f, [None, q]) for f in bodies]
            except (BVX.Unsupported, KeyError) as e:
                if kind == "map_bound" and ("IntToFloat" in repr(e) or "f64" in repr(e)):
                    detail["arms"].append({"literal": from_ty, "column": "f64", "kind": kind, "closures": idents, "skipped": "float column: outside this obligation"})
                    continue
                verdict = "inconclusive"; reason = "bv execution of the %s-literal / %s-column arm: %r" % (from_ty, col, e)
                continue
            if kind == "map_bound":
                decided_same += 1
            encoded |= set(ex.bodies); summaries |= set(ex.summaries_used)
            head = ["(set-logic QF_BV)", "(declare-const q (_ BitVec 64))", "(declare-const c (_ BitVec 64))",
                    "(define-fun m () (_ BitVec 64) %s)" % ("(bvxor c %s)" % BVX.lit(1 << 63, 64) if col == "i64" else "c"),
                    "(define-fun qx () (_ BitVec 66) ((_ %s 2) q))" % ("sign_extend" if SIGNED[from_ty] else "zero_extend"),
                    "(define-fun cx () (_ BitVec 66) ((_ %s 2) c))" % ("sign_extend" if SIGNED[col] else "zero_extend")]
            ORIG = {("lower", "Included"): "(bvsge cx qx)", ("lower", "Excluded"): "(bvsgt cx qx)",
                    ("upper", "Included"): "(bvsle cx qx)", ("upper", "Excluded"): "(bvslt cx qx)"}

            def accept(side, bkind, y):
                if bkind == "Unbounded":
                    return "true"
                op = {("lower", "Included"): "bvuge", ("lower", "Excluded"): "bvugt", ("upper", "Included"): "bvule", ("upper", "Excluded"): "bvult"}[(side, bkind)]
                return "(%s m %s)" % (op, y)

            checks = []
            if kind == "map_bound":
                g = paths[0]
                for side in ("lower", "upper"):
                    for bkind in ("Included", "Excluded"):
                        acc = "(or %s)" % " ".join("(and %s %s)" % (BVX.conj(cs), accept(side, bkind, v["e"])) for cs, v in g)
                        checks.append((side, bkind, acc))
            else:
                for side, ps in (("lower", paths[0]), ("upper", paths[1])):
                    for bkind in ("Included", "Excluded"):
                        alts = []
                        for cs, v in ps:
                            if v["k"] != "enum":
                                raise BVX.Unsupported("closure does not return TransformBound")
                            if v["variant"] == "Existing":
                                a_ = accept(side, bkind, v["fields"][0]["e"])
                            elif v["variant"] == "NewBound":
                                nb = v["fields"][0]
                                a_ = accept(side, nb["variant"], nb["fields"][0]["e"] if nb["fields"] else None)
                            else:
                                raise BVX.Unsupported("TransformBound variant %s" % v["variant"])
                            alts.append("(and %s %s)" % (BVX.conj(cs), a_))
                        checks.append((side, bkind, "(or %s)" % " ".join(alts)))
            arm = {"literal": from_ty, "column": col, "kind": kind, "closures": idents, "paths": [len(p) for p in paths], "checks": []}
            # vacuity: every path of every closure is feasible
            for ps in paths:
                for cs, _ in ps:
                    r, _, dt = _smt("\n".join(head + ["(assert %s)" % BVX.conj(cs), "(check-sat)"]), "z3")
                    queries += 1; solver_s += dt
                    if r != "sat":
                        witnessed = False
            for side, bkind, acc in checks:
                qtxt = "\n".join(head + ["(assert (xor %s %s))" % (ORIG[(side, bkind)], acc), "(check-sat)", "(get-value (q c))"])
                r1, out1, dt1 = _smt(qtxt, "z3"); r2, out2, dt2 = _smt(qtxt, "cvc5")
                queries += 2; solver_s += dt1 + dt2
                cd = {"side": side, "bound": bkind, "z3": r1, "cvc5": r2}
                if r1 != r2 or r1 not in ("sat", "unsat"):
                    if verdict != "violated":
                        verdict = "inconclusive"; reason = "solvers disagree or error on %s/%s %s %s: %s / %s" % (from_ty, col, side, bkind, r1, r2)
                elif r1 == "sat":
                    mv = dict(re.findall(r"\((q|c) #x([0-9a-f]+)\)", out1))
                    qv = int(mv.get("q", "0"), 16); cv = int(mv.get("c", "0"), 16)
                    sg = lambda v, ty: v - (1 << 64) if SIGNED[ty] and v >= (1 << 63) else v
                    cd["counterexample"] = {"literal": sg(qv, from_ty), "column_value": sg(cv, col)}
                    verdict = "violated"
                    failed.append({"class": "mirbv", "file": roots[0], "line": line,
                                   "desc": "%s literal on %s column, %s bound %s: literal %d, column value %d is accepted iff it should not be"
                                           % (from_ty, col, side, bkind, sg(qv, from_ty), sg(cv, col)),
                                   "probe": ["json_range", from_ty, col, side, bkind, str(sg(qv, from_ty)), str(sg(cv, col))]})
                arm["checks"].append(cd)
            detail["arms"].append(arm)
        if decided_same < 1 and verdict == "discharged":
            verdict = "inconclusive"; reason = "no map_bound transformation of %s literals onto a %s column could be executed" % (from_ty, from_ty)
    native = [tuple(f["probe"]) for f in failed[:3]]
    rec.update(verdict=verdict, reason=reason, queries=queries, solver_s=round(solver_s, 3), failed=failed, native=native or None,
               witnessed=witnessed and verdict == "discharged", detail=detail,
               functions=sorted(encoded), assumes=list(o.get("assumes", [])) + ["summary: " + s_ for s_ in sorted(summaries)],
               wall_s=round(time.time() - t0, 2), bounds=o.get("bounds") or "all 64-bit literals and column values; loop-free bodies, every path")
    return rec


def run_guard(funcs, o, tier):
    """kind="guard": value-aware guard obligations (mirbv, lenient mode).
    `bodies`: regexes of functions / parents; for a parent every bool-returning closure that calls
    the subject is taken (mode "closure_true": the closure must return true only when the subject
    has the required variant); for a function with a `target` call (mode "before_call") every path
    that reaches the target must have the subject call's result equal to the required variant
    (a path that never asked counts as a violation). Everything the executor does not understand is
    an unconstrained value (over-approximation: can only add paths)."""
    import bv as BVX
    spec = o["spec"]
    rec = dict(o); rec.pop("spec", None); rec["spec"] = o["id"]; rec["native"] = spec.get("native")
    t0 = time.time()
    req = BVX.variant_const(spec["required"][0], spec["required"][1])
    req_index = None
    if spec.get("subject_result"):
        # the tolerated error variant is compared through its numeric discriminant: read the
        # variant order from the enum's declaration
        try:
            src = open(os.path.join(REPO, spec["required"][2])).read()
            body = re.search(r"pub enum %s\s*\{(.*?)\n\}" % spec["required"][0].split("::")[-1], src, re.S).group(1)
            variants = re.findall(r"^    ([A-Z]\w*)", body, re.M)
            req_index = variants.index(spec["required"][1])
        except Exception as e:
            rec.update(verdict="inconclusive", reason="cannot read the variant order of %s: %r" % (spec["required"][0], e), wall_s=0)
            return rec
    queries = 0; solver_s = 0.0; failed = []; detail = {"sites": []}; encoded = []
    verdict = "discharged"; reason = None; witnessed = True
    for site in spec["sites"]:
        mode = site["mode"]
        names = find_roots(funcs, site["body"])
        bodies = []
        for n in names:
            for f in funcs[n]:
                has_subject = any(b.kind == "call" and re.search(spec["subject"], b.call["callee"]) for b in f.blocks.values())
                if mode == "closure_true" and not (f.ret.strip() == "bool" and has_subject):
                    continue
                if mode == "before_call" and not any(b.kind == "call" and re.search(site["target"], b.call["callee"]) for b in f.blocks.values()):
                    continue
                bodies.append(f)
        if ("expect" in site and len(bodies) != site["expect"]) or len(bodies) < site.get("expect_min", 1):
            verdict = "inconclusive" if verdict != "violated" else verdict
            reason = "guard site %r resolves to %d bodies (expected %s)" % (site["body"], len(bodies), site.get("expect", ">= %d" % site.get("expect_min", 1)))
            continue
        for f in bodies:
            ex = BVX.Exec(funcs, lenient=True, subject=(spec["subject"], "subj"), target=site.get("target"))
            ex.subject_result = bool(spec.get("subject_result"))
            try:
                nargs = len(re.findall(r"_\d+: ", f.params or ""))
                outs = ex.run(f, [BVX.OPAQUE("arg") for _ in range(nargs)])
            except BVX.Unsupported as e:
                verdict = "inconclusive" if verdict != "violated" else verdict
                reason = "bv execution of %s: %r" % (f.name, e)
                continue
            encoded.append(f.name)
            if ex.cut:
                verdict = "inconclusive" if verdict != "violated" else verdict
                reason = "%d path(s) of %s were cut (loop before the guard): incomplete" % (ex.cut, f.name)
                continue
            if mode == "closure_true":
                pass_paths = [BVX.conj(cs + [v["e"]]) for cs, v in outs if v["k"] == "bool"]
                pass_paths += [BVX.conj(cs) for cs, v in outs if v["k"] == "opaque"]
            elif spec.get("subject_result"):
                # every arrival at the target: the last subject call before it failed with the tolerated variant
                pass_paths = []
                for cs, _, last in ex.hits:
                    if last is None:
                        pass_paths.append(("true", None)); continue
                    pass_paths.append((BVX.conj(cs), last))
                head = ["(set-logic QF_BV)"] + ["(declare-const subj_tag_%d (_ BitVec 64))\n(declare-const subj_%d (_ BitVec 64))" % (k_, k_) for k_ in range(1, ex.n_subjects + 1)]
                sd = {"body": f.name, "mode": mode, "arrivals_at_target": len(pass_paths)}
                if not pass_paths:
                    verdict = "inconclusive" if verdict != "violated" else verdict
                    reason = "no path of %s reaches the target" % f.name
                    detail["sites"].append(sd); continue
                bad_any = False; wit_any = False
                for cond, last in pass_paths:
                    if last is None:
                        bad_any = True; continue
                    reqlit = BVX.lit(req_index, 64)
                    # tolerated only on the Err side with the required variant
                    q_bad = "\n".join(head + ["(assert %s)" % cond, "(assert (not (and (= subj_tag_%d %s) (= subj_%d %s))))" % (last, BVX.lit(1, 64), last, reqlit), "(check-sat)"])
                    q_wit = "\n".join(head + ["(assert %s)" % cond, "(assert (and (= subj_tag_%d %s) (= subj_%d %s)))" % (last, BVX.lit(1, 64), last, reqlit), "(check-sat)"])
                    r1, _, d1 = _smt(q_bad, "z3"); r2, _, d2 = _smt(q_bad, "cvc5"); rw, _, d3 = _smt(q_wit, "z3")
                    queries += 3; solver_s += d1 + d2 + d3
                    if r1 != r2 or r1 not in ("sat", "unsat"):
                        verdict = "inconclusive" if verdict != "violated" else verdict
                        reason = "solvers disagree / error on %s: %s / %s" % (f.name, r1, r2)
                    elif r1 == "sat":
                        bad_any = True
                    if rw == "sat":
                        wit_any = True
                sd.update(violated=bad_any, witness=wit_any)
                if not wit_any:
                    witnessed = False
                if bad_any:
                    verdict = "violated"
                    failed.append({"class": "mirbv", "file": f.name, "line": f.line,
                                   "desc": "%s: %s is reached after %s failed with an error other than %s::%s (or without a failure)" % (f.name.split("::")[-1], site.get("target"), spec["subject"], spec["required"][0], spec["required"][1])})
                detail["sites"].append(sd)
                continue
            else:
                pass_paths = [BVX.conj(cs) for cs, _, _ in ex.hits]
            consts = set(ex.consts) | {req}
            head = ["(set-logic QF_BV)", "(declare-const subj (_ BitVec 64))"] + ["(declare-const %s (_ BitVec 64))" % c for c in sorted(consts)]
            if len(consts) > 1:
                head.append("(assert (distinct %s))" % " ".join(sorted(consts)))
            sd = {"body": f.name, "mode": mode, "paths_passing_guard": len(pass_paths)}
            if not pass_paths:
                verdict = "inconclusive" if verdict != "violated" else verdict
                reason = "no path of %s passes the guard / reaches the target" % f.name
                detail["sites"].append(sd)
                continue
            passing = "(or %s)" % " ".join(pass_paths) if len(pass_paths) > 1 else pass_paths[0]
            q_bad = "\n".join(head + ["(assert %s)" % passing, "(assert (not (= subj %s)))" % req, "(check-sat)"])
            q_wit = "\n".join(head + ["(assert %s)" % passing, "(assert (= subj %s))" % req, "(check-sat)"])
            r1, _, d1 = _smt(q_bad, "z3"); r2, _, d2 = _smt(q_bad, "cvc5"); rw, _, d3 = _smt(q_wit, "z3")
            queries += 3; solver_s += d1 + d2 + d3
            sd.update(z3=r1, cvc5=r2, witness=rw)
            if rw != "sat":
                witnessed = False
            if r1 != r2 or r1 not in ("sat", "unsat"):
                verdict = "inconclusive" if verdict != "violated" else verdict
                reason = "solvers disagree / error on %s: %s / %s" % (f.name, r1, r2)
            elif r1 == "sat":
                verdict = "violated"
                failed.append({"class": "mirbv", "file": f.name, "line": f.line,
                               "desc": "%s: %s with %s other than %s::%s" % (f.name.split("::")[-2] + "::" + f.name.split("::")[-1],
                                       "the guard passes" if mode == "closure_true" else "the target call is reached",
                                       spec["subject"], spec["required"][0], spec["required"][1])})
            detail["sites"].append(sd)
    rec.update(verdict=verdict, reason=reason, queries=queries, solver_s=round(solver_s, 3), failed=failed,
               witnessed=witnessed and verdict == "discharged", detail=detail, functions=sorted(encoded),
               wall_s=round(time.time() - t0, 2), bounds=o.get("bounds") or "every path of the named bodies; unknown values unconstrained")
    return rec


def run_sortkey(funcs_unused, o, tier, scratch):
    """kind="sortkey": the closure that turns a numerical value into the u64 key a fresh segment of a
    sorted index is ordered by is executed as a bit-vector program, once per integer variant, on
    two symbolic values a, b: a < b (in the variant's own order) iff key(a) < key(b) (unsigned)."""
    import bv as BVX
    spec = o["spec"]
    rec = dict(o); rec.pop("spec", None); rec["spec"] = o["id"]
    t0 = time.time()
    funcs = load_mir_crate(scratch, spec["crate"])
    if funcs is None:
        rec.update(verdict="inconclusive", reason="MIR dump of %s failed: %s" % (spec["crate"], _CACHE.get("err:" + spec["crate"], "")), wall_s=0)
        return rec
    cands = []
    for n in find_roots(funcs, spec["closure"]):
        for f in funcs[n]:
            pm = re.search(r"_(\d+): " + spec["param_ty"] + r"(?:,|$)", f.params or "")
            if pm and f.ret.strip() in spec["rets"]:
                cands.append((f, int(pm.group(1))))
    if not cands:
        rec.update(verdict="inconclusive", reason="no body under %r takes a %s and returns a sort key" % (spec["closure"], spec["param_ty"]), wall_s=round(time.time() - t0, 2))
        return rec
    queries = 0; solver_s = 0.0; failed = []; detail = {"bodies": [f.name for f, _ in cands], "variants": []}
    verdict = "discharged"; reason = None; witnessed = True; summaries = set()
    for f, pidx in cands:
      for variant, ty in spec["variants"]:
        w, signed = BVX.INT_TYPES[ty]
        keys = []
        try:
            for nm in ("a", "b"):
                ex = BVX.Exec(funcs)
                args = [None] * pidx
                args[pidx - 1] = BVX.ENUM(spec["enum"], variant, [BVX.BV(nm, w, signed)])
                outs = ex.run(f, args)
                summaries |= set(ex.summaries_used)
                if len(outs) != 1:
                    raise BVX.Unsupported("%d paths for variant %s" % (len(outs), variant))
                v = outs[0][1]
                if v.get("k") == "enum" and v.get("variant") == "Some":
                    v = v["fields"][0]
                if v.get("k") != "bv":
                    raise BVX.Unsupported("key of variant %s is not an integer" % variant)
                keys.append((BVX.conj(outs[0][0]), v["e"]))
        except BVX.Unsupported as e:
            verdict = "inconclusive" if verdict != "violated" else verdict
            reason = "bv execution of %s for variant %s: %r" % (f.name, variant, e)
            continue
        lt = "bvslt" if signed else "bvult"
        head = ["(set-logic QF_BV)", "(declare-const a (_ BitVec %d))" % w, "(declare-const b (_ BitVec %d))" % w]
        q = "\n".join(head + ["(assert %s)" % keys[0][0], "(assert %s)" % keys[1][0],
                               "(assert (xor (%s a b) (bvult %s %s)))" % (lt, keys[0][1], keys[1][1]), "(check-sat)", "(get-value (a b))"])
        r1, out1, d1 = _smt(q, "z3"); r2, _, d2 = _smt(q, "cvc5")
        qw = "\n".join(head + ["(assert (%s a b))" % lt, "(assert (bvult %s %s))" % (keys[0][1], keys[1][1]), "(check-sat)"])
        rw, _, d3 = _smt(qw, "z3")
        queries += 3; solver_s += d1 + d2 + d3
        vd = {"body": f.name, "variant": variant, "type": ty, "z3": r1, "cvc5": r2, "witness": rw}
        if rw != "sat":
            witnessed = False
        if r1 != r2 or r1 not in ("sat", "unsat"):
            verdict = "inconclusive" if verdict != "violated" else verdict
            reason = "solvers disagree / error on variant %s: %s / %s" % (variant, r1, r2)
        elif r1 == "sat":
            mv = dict(re.findall(r"\((a|b) #x([0-9a-f]+)\)", out1))
            sg = lambda v_: v_ - (1 << w) if signed and v_ >= (1 << (w - 1)) else v_
            av, bv_ = sg(int(mv.get("a", "0"), 16)), sg(int(mv.get("b", "0"), 16))
            vd["counterexample"] = {"a": av, "b": bv_}
            verdict = "violated"
            failed.append({"class": "mirbv", "file": f.name, "line": f.line,
                           "desc": "sort key of %s values is not order preserving: a = %d, b = %d" % (ty, av, bv_),
                           "probe": ["sorted_segment", ty, str(av), str(bv_)]})
        detail["variants"].append(vd)
    f = cands[0][0]
    rec.update(verdict=verdict, reason=reason, queries=queries, solver_s=round(solver_s, 3), failed=failed,
               native=[tuple(x["probe"]) for x in failed[:2]] or None, witnessed=witnessed and verdict == "discharged",
               detail=detail, functions=[f.name], assumes=list(o.get("assumes", [])) + ["summary: " + s_ for s_ in sorted(summaries)],
               wall_s=round(time.time() - t0, 2), bounds=o.get("bounds") or "all pairs of 64-bit values per integer variant")
    return rec


def run_one(funcs, o, tier):
    if o["spec"].get("kind") == "sortkey":
        return run_sortkey(funcs, o, tier, _CACHE.get("scratch", "/tmp"))
    if o["spec"].get("kind") == "guard":
        return run_guard(funcs, o, tier)
    if o["spec"].get("kind") == "scan":
        return run_scan(funcs, o, tier)
    if o["spec"].get("kind") == "bounds":
        return run_bounds(funcs, o, tier)
    if o["spec"].get("crate"):
        # protocol obligation on a workspace member: its own MIR dump
        funcs = load_mir_crate(_CACHE.get("scratch", "/tmp"), o["spec"]["crate"])
        if funcs is None:
            rec = dict(o); rec.pop("spec", None)
            rec.update(verdict="inconclusive", reason="MIR dump of %s failed" % o["spec"]["crate"], wall_s=0)
            return rec
    spec = dict(o["spec"])
    if tier == "thorough":
        spec["unroll"] = spec.get("unroll_thorough", spec.get("unroll", 2) + 2)
        spec["depth"] = spec.get("depth_thorough", spec.get("depth", 3) + 1)
    rec = dict(o)
    rec.pop("spec", None)
    rec["spec"] = o["spec"].get("name", o["id"])
    rec["native"] = o["spec"].get("native")
    t0 = time.time()
    roots = find_roots(funcs, spec["root"])
    if len(roots) > 1 and spec.get("root_impl"):
        roots = [r for r in roots if (MIR.impl_type_of(r, REPO) or (None,))[0] == spec["root_impl"]]
    if len(roots) != 1:
        rec.update(verdict="inconclusive", reason="root pattern %r resolves to %d functions" % (spec["root"], len(roots)),
                   wall_s=round(time.time() - t0, 2))
        return rec
    f = funcs[roots[0]][0]
    queries = 0
    solver_s = 0.0
    detail = {"root": roots[0], "checks": []}
    verdict = "discharged"
    reason = None
    witnessed = True
    failed = []
    replay = None
    encoded_fns = set()
    for ci, check in enumerate(spec["checks"]):
        g = ENC.Graph(funcs, REPO, spec)
        g.expand(f, (), 0, [])
        counts = ENC.match_events(g, spec["events"])
        encoded_fns |= {n.fn.name for n in g.nodes}
        cd = {"check": [x if isinstance(x, (str, bool, int)) else list(x) for x in check], "nodes": len(g.nodes), "edges": len(g.edges),
              "event_counts": counts, "inlined": len(g.inlined), "cut_by_unroll_bound": g.cut}
        # every event named by the check must resolve somewhere, else the obligation is stale
        names = [x for x in check[1:] if isinstance(x, str) and x in counts]
        if check[0] == "held_during":
            inside = [y for y in check[3] if counts.get(y, 0) > 0]
            names = [check[1]] + (check[3][:1] if not inside else [])
        missing = [x for x in names if x in counts and counts[x] == 0 and x not in spec.get("absent_ok_events", [])]
        if missing and check[0] != "never":
            if verdict != "violated":
                verdict = "inconclusive"; reason = "event pattern(s) %s match nothing reachable from %s" % (missing, roots[0])
            cd["result"] = "stale"
            detail["checks"].append(cd)
            continue
        lines, bad, notes = ENC.build_smt(g, spec, check)
        if check[0] == "edge_requires":
            cd["edges_matched"] = notes.get("edges_matched", 0)
            if not bad:
                if verdict != "violated":
                    verdict = "inconclusive"; reason = "edge_requires: no matching comparison edge (pattern stale or operands unresolved)"
                cd["result"] = "stale"
                detail["checks"].append(cd)
                continue
        # witness twin: the guarded event is reachable at all
        if check[0] == "ok_requires":
            wl, wbad, _ = ENC.build_smt(g, spec, ("reach", check[1]))
            wr, _, wdt, _ = ENC.solve(wl, wbad)
            queries += 1; solver_s += wdt
            cd["witness"] = wr
            if wr != "sat":
                witnessed = False
        elif check[0] in ("precedes_ok", "precedes", "precedes_true", "not_after_fail", "last_is"):
            wl, wbad, _ = ENC.build_smt(g, spec, ("reach", check[2]))
            wr, _, wdt, _ = ENC.solve(wl, wbad)
            queries += 1; solver_s += wdt
            cd["witness"] = wr
            if wr != "sat":
                witnessed = False
        elif check[0] == "requires_between":
            wl, wbad, _ = ENC.build_smt(g, spec, ("reach", check[3]))
            wr, _, wdt, _ = ENC.solve(wl, wbad)
            queries += 1; solver_s += wdt
            cd["witness"] = wr
            if wr != "sat":
                witnessed = False
        elif check[0] == "held_during":
            oks = []
            for ev in check[3]:
                wl, wbad, _ = ENC.build_smt(g, spec, ("reach", ev))
                wr, _, wdt, _ = ENC.solve(wl, wbad)
                queries += 1; solver_s += wdt
                oks.append(wr)
            cd["witness"] = oks
            if "sat" not in oks:
                witnessed = False
        elif check[0] == "err_propagates":
            wl, wbad, _ = ENC.build_smt(g, spec, ("reach", check[1]))
            wr, _, wdt, _ = ENC.solve(wl, wbad)
            queries += 1; solver_s += wdt
            cd["witness"] = wr
            if wr != "sat":
                witnessed = False
        res, out, dt, q = ENC.solve(lines, bad)
        queries += 1; solver_s += dt
        cd["z3"] = res; cd["z3_s"] = round(dt, 3); cd["bad_states"] = len(bad)
        expect_sat = check[0] == "reach"
        if res == "nobad":
            if expect_sat and verdict != "violated":
                verdict = "inconclusive"; reason = "reach target absent"
            cd["result"] = "no bad state constructible"
        elif res in ("sat", "unsat"):
            # cross-check with cvc5
            r2, _, dt2, _ = ENC.solve(lines, bad, solver="cvc5")
            queries += 1; solver_s += dt2
            cd["cvc5"] = r2
            if r2 in ("sat", "unsat") and r2 != res:
                if verdict != "violated":
                    verdict = "inconclusive"; reason = "z3 and cvc5 disagree on check %d" % ci
            elif (res == "sat") != expect_sat:
                if expect_sat:
                    verdict = "inconclusive" if verdict != "violated" else verdict
                    reason = "expected-reachable event is unreachable (check %d)" % ci
                else:
                    verdict = "violated"
                    path, tags = ENC.model_path(g, out)
                    steps = ENC.describe_path(g, path, tags)
                    failed.append({"class": "mirproto", "desc": "%s violated: %s" % (check[0], json.dumps(cd["check"])),
                                   "file": roots[0], "line": None, "path": steps})
        else:
            if verdict != "violated":
                verdict = "inconclusive"; reason = "solver: %s" % (str(out)[:200] if out else res)
        detail["checks"].append(cd)
    rec.update(verdict=verdict, reason=reason, queries=queries, solver_s=round(solver_s, 3), detail=detail,
               witnessed=witnessed and verdict == "discharged", failed=failed,
               functions=sorted(encoded_fns)[:40] + ([] if len(encoded_fns) <= 40 else ["... +%d" % (len(encoded_fns) - 40)]),
               wall_s=round(time.time() - t0, 2),
               bounds="inline depth %d, loop unroll %d, max nodes %d" % (spec.get("depth", 3), spec.get("unroll", 2), spec.get("max_nodes", 6000)))
    return rec


def run(mobls, scratch, tier):
    _CACHE["scratch"] = scratch
    funcs, info = load_mir(scratch)
    recs = []
    if funcs is None:
        for o in mobls:
            r = dict(o); r.pop("spec", None)
            r.update(verdict="inconclusive", reason="MIR dump failed: " + info.get("err", "")[-300:])
            recs.append(r)
        return recs
    for o in mobls:
        try:
            r = run_one(funcs, o, tier)
        except Exception as e:
            import traceback
            r = dict(o); r.pop("spec", None)
            r.update(verdict="inconclusive", reason="mirproto exception: %r %s" % (e, traceback.format_exc()[-400:]))
        r["mir_info"] = info
        recs.append(r)
    return recs
