"""Engine M driver: dump MIR of /repo (nightly), parse, and discharge mirproto obligations."""
import os, sys, json, time, re
HERE = os.path.dirname(os.path.abspath(__file__))
sys.path.insert(0, os.path.join(HERE, "..", "mirproto"))
import mir as MIR
import encode as ENC

REPO = os.environ.get("VERIF_REPO", "/repo")
_CACHE = {}


def load_mir(scratch):
    if "funcs" in _CACHE:
        return _CACHE["funcs"], _CACHE["info"]
    pre = os.environ.get("VERIF_MIR_FILE")
    if pre and os.path.exists(pre):
        txt = open(pre).read(); rc = 0; dt = 0.0; err = ""
    else:
        rc, txt, err, dt = MIR.dump(REPO, scratch)
    if rc != 0 or len(txt) < 1000:
        _CACHE["funcs"] = None
        _CACHE["info"] = {"ok": False, "err": err[-3000:], "dump_s": dt}
        return None, _CACHE["info"]
    t0 = time.time()
    funcs = MIR.parse(txt)
    _CACHE["funcs"] = funcs
    _CACHE["info"] = {"ok": True, "dump_s": round(dt, 1), "parse_s": round(time.time() - t0, 1),
                      "bodies": sum(len(v) for v in funcs.values()), "mir_bytes": len(txt)}
    return funcs, _CACHE["info"]


def find_roots(funcs, rx):
    r = re.compile(rx)
    return [n for n in funcs if r.search(n)]


def run_scan(funcs, o, tier):
    """one `never` query per function in scope that contains a matching event"""
    spec = dict(o["spec"])
    spec.setdefault("auto_inline", False); spec.setdefault("depth", 0)
    rec = dict(o); rec.pop("spec", None)
    rec["spec"] = o["id"]; rec["native"] = spec.get("native")
    t0 = time.time()
    scope = [re.compile(r) for r in spec["scope"]]
    excl = [re.compile(r) for r in spec.get("exclude", [r"::tests?::", r"::test::"])]
    ev_name = spec["checks"][0][1]
    queries = 0; solver_s = 0.0; failed = []; scanned = 0; with_event = 0
    for name, fl in funcs.items():
        if not any(r.search(name) for r in scope) or any(r.search(name) for r in excl):
            continue
        for f in fl:
            scanned += 1
            g = ENC.Graph(funcs, REPO, spec)
            try:
                g.expand(f, (), 0, [])
            except Exception:
                continue
            counts = ENC.match_events(g, spec["events"])
            if counts.get(ev_name, 0) == 0:
                continue
            with_event += 1
            lines, bad, notes = ENC.build_smt(g, spec, ("never", ev_name))
            res, out, dt, q = ENC.solve(lines, bad)
            queries += 1; solver_s += dt
            if res == "sat":
                r2, _, dt2, _ = ENC.solve(lines, bad, solver="cvc5")
                queries += 1; solver_s += dt2
                if r2 == "sat":
                    path, tags = ENC.model_path(g, out)
                    steps = [s for s in ENC.describe_path(g, path, tags) if s.get("events")]
                    failed.append({"class": "mirproto", "desc": "%s reachable in %s" % (ev_name, name), "file": name, "line": None, "path": steps})
    # vacuity witness: with the allow-list switched off the detector must find the documented sinks
    wspec = dict(spec)
    wspec["events"] = {k: {kk: vv for kk, vv in v.items() if kk != "allow"} for k, v in spec["events"].items()}
    sinks_found = 0
    for name, fl in funcs.items():
        if not any(r.search(name) for r in scope) or any(r.search(name) for r in excl):
            continue
        for f in fl:
            g = ENC.Graph(funcs, REPO, wspec)
            try:
                g.expand(f, (), 0, [])
            except Exception:
                continue
            if ENC.match_events(g, wspec["events"]).get(ev_name, 0) == 0:
                continue
            lines, bad, notes = ENC.build_smt(g, wspec, ("never", ev_name))
            res, out, dt, q = ENC.solve(lines, bad)
            queries += 1; solver_s += dt
            if res == "sat":
                sinks_found += 1
    verdict = "violated" if failed else "discharged"
    rec.update(verdict=verdict, reason=None, queries=queries, solver_s=round(solver_s, 3), failed=failed,
               witnessed=scanned > 0 and sinks_found > 0 and verdict == "discharged",
               detail={"functions_scanned": scanned, "functions_with_candidate_event": with_event, "documented_sinks_reached_without_allow_list": sinks_found, "allow_list": spec["events"][ev_name].get("allow")},
               functions=["%d function bodies matching %s" % (scanned, spec["scope"])], wall_s=round(time.time() - t0, 2),
               bounds="per function, loops unrolled %d, no inlining" % spec.get("unroll", 2))
    return rec


def run_one(funcs, o, tier):
    if o["spec"].get("kind") == "scan":
        return run_scan(funcs, o, tier)
    spec = dict(o["spec"])
    if tier == "thorough":
        spec["unroll"] = spec.get("unroll_thorough", spec.get("unroll", 2) + 2)
        spec["depth"] = spec.get("depth_thorough", spec.get("depth", 3) + 1)
    rec = dict(o)
    rec.pop("spec", None)
    rec["spec"] = o["spec"].get("name", o["id"])
    rec["native"] = o["spec"].get("native")
    t0 = time.time()
    roots = find_roots(funcs, spec["root"])
    if len(roots) > 1 and spec.get("root_impl"):
        roots = [r for r in roots if (MIR.impl_type_of(r, REPO) or (None,))[0] == spec["root_impl"]]
    if len(roots) != 1:
        rec.update(verdict="inconclusive", reason="root pattern %r resolves to %d functions" % (spec["root"], len(roots)),
                   wall_s=round(time.time() - t0, 2))
        return rec
    f = funcs[roots[0]][0]
    queries = 0
    solver_s = 0.0
    detail = {"root": roots[0], "checks": []}
    verdict = "discharged"
    reason = None
    witnessed = True
    failed = []
    replay = None
    encoded_fns = set()
    for ci, check in enumerate(spec["checks"]):
        g = ENC.Graph(funcs, REPO, spec)
        g.expand(f, (), 0, [])
        counts = ENC.match_events(g, spec["events"])
        encoded_fns |= {n.fn.name for n in g.nodes}
        cd = {"check": [x if isinstance(x, (str, bool, int)) else list(x) for x in check], "nodes": len(g.nodes), "edges": len(g.edges),
              "event_counts": counts, "inlined": len(g.inlined), "cut_by_unroll_bound": g.cut}
        # every event named by the check must resolve somewhere, else the obligation is stale
        names = [x for x in check[1:] if isinstance(x, str) and x in counts]
        if check[0] == "held_during":
            inside = [y for y in check[3] if counts.get(y, 0) > 0]
            names = [check[1]] + (check[3][:1] if not inside else [])
        missing = [x for x in names if x in counts and counts[x] == 0 and x not in spec.get("absent_ok_events", [])]
        if missing and check[0] != "never":
            if verdict != "violated":
                verdict = "inconclusive"; reason = "event pattern(s) %s match nothing reachable from %s" % (missing, roots[0])
            cd["result"] = "stale"
            detail["checks"].append(cd)
            continue
        lines, bad, notes = ENC.build_smt(g, spec, check)
        if check[0] == "edge_requires":
            cd["edges_matched"] = notes.get("edges_matched", 0)
            if not bad:
                if verdict != "violated":
                    verdict = "inconclusive"; reason = "edge_requires: no matching comparison edge (pattern stale or operands unresolved)"
                cd["result"] = "stale"
                detail["checks"].append(cd)
                continue
        # witness twin: the guarded event is reachable at all
        if check[0] in ("precedes_ok", "precedes", "precedes_true", "not_after_fail", "last_is"):
            wl, wbad, _ = ENC.build_smt(g, spec, ("reach", check[2]))
            wr, _, wdt, _ = ENC.solve(wl, wbad)
            queries += 1; solver_s += wdt
            cd["witness"] = wr
            if wr != "sat":
                witnessed = False
        elif check[0] == "requires_between":
            wl, wbad, _ = ENC.build_smt(g, spec, ("reach", check[3]))
            wr, _, wdt, _ = ENC.solve(wl, wbad)
            queries += 1; solver_s += wdt
            cd["witness"] = wr
            if wr != "sat":
                witnessed = False
        elif check[0] == "held_during":
            oks = []
            for ev in check[3]:
                wl, wbad, _ = ENC.build_smt(g, spec, ("reach", ev))
                wr, _, wdt, _ = ENC.solve(wl, wbad)
                queries += 1; solver_s += wdt
                oks.append(wr)
            cd["witness"] = oks
            if "sat" not in oks:
                witnessed = False
        elif check[0] == "err_propagates":
            wl, wbad, _ = ENC.build_smt(g, spec, ("reach", check[1]))
            wr, _, wdt, _ = ENC.solve(wl, wbad)
            queries += 1; solver_s += wdt
            cd["witness"] = wr
            if wr != "sat":
                witnessed = False
        res, out, dt, q = ENC.solve(lines, bad)
        queries += 1; solver_s += dt
        cd["z3"] = res; cd["z3_s"] = round(dt, 3); cd["bad_states"] = len(bad)
        expect_sat = check[0] == "reach"
        if res == "nobad":
            if expect_sat and verdict != "violated":
                verdict = "inconclusive"; reason = "reach target absent"
            cd["result"] = "no bad state constructible"
        elif res in ("sat", "unsat"):
            # cross-check with cvc5
            r2, _, dt2, _ = ENC.solve(lines, bad, solver="cvc5")
            queries += 1; solver_s += dt2
            cd["cvc5"] = r2
            if r2 in ("sat", "unsat") and r2 != res:
                if verdict != "violated":
                    verdict = "inconclusive"; reason = "z3 and cvc5 disagree on check %d" % ci
            elif (res == "sat") != expect_sat:
                if expect_sat:
                    verdict = "inconclusive" if verdict != "violated" else verdict
                    reason = "expected-reachable event is unreachable (check %d)" % ci
                else:
                    verdict = "violated"
                    path, tags = ENC.model_path(g, out)
                    steps = ENC.describe_path(g, path, tags)
                    failed.append({"class": "mirproto", "desc": "%s violated: %s" % (check[0], json.dumps(cd["check"])),
                                   "file": roots[0], "line": None, "path": steps})
        else:
            if verdict != "violated":
                verdict = "inconclusive"; reason = "solver: %s" % (str(out)[:200] if out else res)
        detail["checks"].append(cd)
    rec.update(verdict=verdict, reason=reason, queries=queries, solver_s=round(solver_s, 3), detail=detail,
               witnessed=witnessed and verdict == "discharged", failed=failed,
               functions=sorted(encoded_fns)[:40] + ([] if len(encoded_fns) <= 40 else ["... +%d" % (len(encoded_fns) - 40)]),
               wall_s=round(time.time() - t0, 2),
               bounds="inline depth %d, loop unroll %d, max nodes %d" % (spec.get("depth", 3), spec.get("unroll", 2), spec.get("max_nodes", 6000)))
    return rec


def run(mobls, scratch, tier):
    funcs, info = load_mir(scratch)
    recs = []
    if funcs is None:
        for o in mobls:
            r = dict(o); r.pop("spec", None)
            r.update(verdict="inconclusive", reason="MIR dump failed: " + info.get("err", "")[-300:])
            recs.append(r)
        return recs
    for o in mobls:
        try:
            r = run_one(funcs, o, tier)
        except Exception as e:
            import traceback
            r = dict(o); r.pop("spec", None)
            r.update(verdict="inconclusive", reason="mirproto exception: %r %s" % (e, traceback.format_exc()[-400:]))
        r["mir_info"] = info
        recs.append(r)
    return recs
