"""Native replay of mirproto counterexamples.

The model of a violated obligation says *which ordering / fault* breaks. It is confirmed on the
real code by running /verif/replay-bin (public tantivy API on a recording, fault-injecting
Directory) and evaluating the obligation's `native` trace predicates on the recorded storage
operations:
  ("between", B, A)         between two consecutive B events (and before the first) an A event
                            with ok=true occurs
  ("fault", OP, FORBID)     for each occurrence k of OP: re-run with that occurrence failing;
                            the API call in flight must report an error and no FORBID event may
                            follow before it returns
  ("api_ok", NAME)          the scenario's API line NAME must report ok=true
  ("on_thread_window", ACQ, REL, INSIDE, THREAD) every INSIDE event of THREAD lies inside an
                            ACQ..REL window of the same thread
  ("probe", NAME)           a heavier single-purpose scenario of replay-bin (`--probe NAME`) must report ok=true
  ("sorted_segment", TY, A, B) the solver's counterexample of the sort-key obligation: a segment of an index sorted
                            by a TY fast field holding A and B must come out in ascending order
  ("json_range", LIT_TY, COL_TY, SIDE, KIND, LIT, VAL) the solver's counterexample of a bound
                            transformation obligation, run as a real range query on a real index
Events are written "op" or "op:path-suffix".
"""
import json, os, re, subprocess, shutil

HERE = os.path.dirname(os.path.abspath(__file__))
BIN_DIR = os.path.join(HERE, "..", "replay-bin")


def build(scratch):
    env = dict(os.environ); env["CARGO_NET_OFFLINE"] = "true"; env.pop("RUSTUP_TOOLCHAIN", None)
    td = os.path.join(scratch, "replay-native-target")
    lock = os.path.join(BIN_DIR, "Cargo.lock")
    p = subprocess.run(["cargo", "build", "--offline", "--target-dir", td], cwd=BIN_DIR, env=env,
                       stdout=subprocess.PIPE, stderr=subprocess.STDOUT, text=True)
    exe = os.path.join(td, "debug", "verif-replay")
    return (exe if p.returncode == 0 and os.path.exists(exe) else None), p.stdout[-2000:]


def run(exe, fail=None, timeout=120, extra=None):
    cmd = [exe] + (["--fail", fail] if fail else []) + list(extra or [])
    try:
        p = subprocess.run(cmd, stdout=subprocess.PIPE, stderr=subprocess.PIPE, text=True, timeout=timeout)
    except subprocess.TimeoutExpired:
        return None
    ev = []
    for l in p.stdout.splitlines():
        try:
            ev.append(json.loads(l))
        except Exception:
            pass
    return ev


def is_ev(e, pat):
    if "op" not in e:
        return False
    op, _, suffix = pat.partition(":")
    return e["op"] == op and (not suffix or e["path"].endswith(suffix))


def pred_between(ev, b, a):
    seen_a = False
    for e in ev:
        if is_ev(e, a) and e["ok"]:
            seen_a = True
        if is_ev(e, b):
            if not seen_a:
                return {"violated": True, "at": e}
            seen_a = False
    return {"violated": False}


def pred_window(ev, acq, rel, inside, thread):
    held = False
    for e in ev:
        if e.get("thread") != thread:
            continue
        if is_ev(e, acq) and e["ok"]:
            held = True
        elif is_ev(e, rel):
            held = False
        elif any(is_ev(e, i) for i in inside) and not held:
            return {"violated": True, "at": e}
    return {"violated": False}


def pred_fault(exe, op, forbid, max_occ=16):
    base = run(exe)
    if base is None:
        return {"violated": None, "why": "scenario did not run"}
    occs = [e for e in base if is_ev(e, op)]
    opname = op.partition(":")[0]
    for e in occs[:max_occ]:
        ev = run(exe, fail="%s:%d" % (opname, e["occ"]))
        if ev is None:
            return {"violated": True, "why": "scenario hangs with %s #%d failing" % (opname, e["occ"])}
        idx = next((i for i, x in enumerate(ev) if x.get("op") == opname and x.get("occ") == e["occ"] and not x.get("ok", True)), None)
        if idx is None:
            continue
        api = next((x for x in ev[idx:] if "api" in x), None)
        later = []
        for x in ev[idx + 1:]:
            if "api" in x:
                break
            later.append(x)
        bad_later = [x for x in later if any(is_ev(x, f) for f in forbid)]
        if bad_later:
            return {"violated": True, "fail": "%s#%d" % (opname, e["occ"]), "then": bad_later[0], "api": api}
    return {"violated": False, "faults_tried": min(len(occs), max_occ)}


def confirm(rec, native, scratch, verif_root):
    """returns replay dict {confirmed, path, why}"""
    prop = rec["prop"]
    rdir = os.path.join(verif_root, "replay", prop)
    os.makedirs(rdir, exist_ok=True)
    rpath = os.path.join(rdir, rec["id"].split("/")[-1] + ".json")
    out = {"obligation": rec["id"], "model_paths": rec.get("failed"), "native": []}
    res = {"confirmed": None, "path": rpath, "why": "no native predicate registered: MIR path witness only"}
    if native:
        exe, log = build(scratch)
        if exe is None:
            res["why"] = "replay-bin did not build: " + log[-300:]
        else:
            ev = run(exe)
            any_v = False
            for p in native:
                if p[0] == "between":
                    r = pred_between(ev, p[1], p[2])
                elif p[0] == "fault":
                    r = pred_fault(exe, p[1], p[2])
                elif p[0] == "api_ok":
                    line = next((e for e in ev if e.get("api") == p[1]), None)
                    r = {"violated": (line is None or not line["ok"]), "api": line}
                elif p[0] == "probe":
                    pe = run(exe, extra=["--probe", p[1]], timeout=600)
                    line = next((e for e in (pe or []) if e.get("api") == p[1]), None)
                    r = {"violated": (line is not None and not line["ok"]), "api": line}
                elif p[0] == "sorted_segment":
                    pe = run(exe, extra=["--sorted-segment"] + [str(x) for x in p[1:]])
                    line = next((e for e in (pe or []) if e.get("api") == "sorted_segment"), None)
                    r = {"violated": (line is not None and not line["ok"]), "api": line}
                elif p[0] == "json_range":
                    pe = run(exe, extra=["--json-range"] + [str(x) for x in p[1:]])
                    line = next((e for e in (pe or []) if e.get("api") == "json_range"), None)
                    r = {"violated": (line is not None and not line["ok"]), "api": line}
                elif p[0] == "on_thread_window":
                    r = pred_window(ev, p[1], p[2], p[3], p[4])
                else:
                    r = {"violated": None}
                out["native"].append({"predicate": list(p), "result": r})
                any_v = any_v or bool(r.get("violated"))
            if any_v:
                res.update(confirmed=True, why="native trace predicate violated on the real code")
            else:
                res.update(confirmed=False, why="native scenario does not show the bad state (counterexample path infeasible or outside the scenario)")
    with open(rpath, "w") as f:
        json.dump(out, f, indent=1, default=str)
    return res
