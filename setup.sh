#!/bin/bash
# Run once after a fresh restore (offline). Nothing is compiled ahead of time: every check
# rebuilds what it needs from /repo's working tree. This only verifies the tool chain.
set -e
cd "$(dirname "$0")"
export CARGO_NET_OFFLINE=true
python3 -c "import json,re,subprocess,concurrent.futures" 
cargo kani --version
cbmc --version
goto-cc --version >/dev/null
goto-instrument --version >/dev/null
z3 --version
cvc5 --version | head -1
rustup toolchain list | grep -q nightly
test -f "$HOME/.kani/kani-0.68.0/library/kani/kani_lib.c"
python3 -c "import sys; sys.path.insert(0,'.'); sys.path.insert(0,'lib'); import obligations as O; print(len(O.OBL), 'obligations registered')"
mkdir -p evidence replay
echo "setup ok"
