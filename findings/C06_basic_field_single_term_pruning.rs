//! NOT part of the seeded bug: a side finding made while preparing seed C06.
//! This test FAILS ON THE PRISTINE HEAD (no patch applied).
//!
//! `TermWeight::for_each_pruning` always runs `block_wand_single_scorer`, even when the
//! field is indexed with `IndexRecordOption::Basic` (e.g. `STRING`).  For such postings the
//! skip list carries no block-max information and `SkipReader::read_block_info` fills in
//! `(fieldnorm_id = 0, term_freq = 0)`, i.e. a block-max score of 0.0 for every full block.
//! As soon as the top-K threshold is > 0 every later full 128-doc block is skipped, although
//! scores still vary with the fieldnorm (multi-valued STRING field).
//! (`scorer_union` / the intersection path guard against this with
//! `freq_reading_option() == ReadFreq`, the single term path does not.)
//!
//! Place as tests/side_probe.rs; run: cargo test --offline --test side_probe
use tantivy::collector::TopDocs;
use tantivy::indexer::NoMergePolicy;
use tantivy::query::TermQuery;
use tantivy::schema::{IndexRecordOption, Schema, STRING};
use tantivy::{Index, IndexWriter, TantivyDocument, Term};

#[test]
fn basic_indexed_field_probe() -> tantivy::Result<()> {
    let mut sb = Schema::builder();
    let tag = sb.add_text_field("tag", STRING);
    let index = Index::create_in_ram(sb.build());
    let mut w: IndexWriter = index.writer_with_num_threads(1, 50_000_000)?;
    w.set_merge_policy(Box::new(NoMergePolicy));
    for d in 0..400u32 {
        let mut doc = TantivyDocument::default();
        doc.add_text(tag, "a");
        // all docs have 5 extra values, except doc 300 which has none (shortest => best score)
        if d != 300 {
            for i in 0..5 {
                doc.add_text(tag, format!("v{i}"));
            }
        }
        w.add_document(doc)?;
    }
    w.commit()?;
    let searcher = index.reader()?.searcher();
    let q = TermQuery::new(Term::from_field_text(tag, "a"), IndexRecordOption::Basic);
    let all = searcher.search(&q, &TopDocs::with_limit(1000).order_by_score())?;
    let top1 = searcher.search(&q, &TopDocs::with_limit(1).order_by_score())?;
    // pristine HEAD: all[0] = doc 300, top1 = doc 0
    assert_eq!(all[0].1, top1[0].1);
    Ok(())
}
