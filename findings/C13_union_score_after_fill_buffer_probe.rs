use tantivy::collector::Count;
use tantivy::query::{BooleanQuery, EnableScoring, Occur, Query, TermQuery};
use tantivy::schema::{IndexRecordOption, Schema, TEXT};
use tantivy::{doc, DocSet, Index, IndexWriter, Term, TERMINATED, COLLECT_BLOCK_BUFFER_LEN};

#[test]
fn score_after_fill_buffer_then_advance() {
    let mut sb = Schema::builder();
    let f = sb.add_text_field("f", TEXT);
    let index = Index::create_in_ram(sb.build());
    let mut w: IndexWriter = index.writer_with_num_threads(1, 50_000_000).unwrap();
    for d in 0..6000u32 {
        let mut text = String::from("z");
        if d <= 70 { text.push_str(" a"); }
        if d == 5000 || d == 5003 { text.push_str(" b"); }
        w.add_document(doc!(f => text)).unwrap();
    }
    w.commit().unwrap();
    let reader = index.reader().unwrap();
    let searcher = reader.searcher();
    assert_eq!(searcher.segment_readers().len(), 1);
    let q = BooleanQuery::new(vec![
        (Occur::Should, Box::new(TermQuery::new(Term::from_field_text(f, "a"), IndexRecordOption::WithFreqs)) as Box<dyn Query>),
        (Occur::Should, Box::new(TermQuery::new(Term::from_field_text(f, "b"), IndexRecordOption::WithFreqs)) as Box<dyn Query>),
    ]);
    assert_eq!(searcher.search(&q, &Count).unwrap(), 73);
    let weight = q.weight(EnableScoring::enabled_from_searcher(&searcher)).unwrap();
    let seg = searcher.segment_reader(0);
    // reference: a fresh scorer, seek
    let mut fresh = weight.scorer(seg, 1.0).unwrap();
    assert_eq!(fresh.seek(5003), 5003);
    let expected = fresh.score();
    // fill_buffer once, then advance
    let mut s = weight.scorer(seg, 1.0).unwrap();
    let mut buf = [0u32; COLLECT_BLOCK_BUFFER_LEN];
    let n = s.fill_buffer(&mut buf);
    assert_eq!(n, 64);
    let mut d = s.doc();
    while d < 5003 && d != TERMINATED { d = s.advance(); }
    assert_eq!(d, 5003);
    let got = s.score();
    println!("expected {expected} got {got}");
    assert_eq!(got, expected, "score at doc 5003 depends on how it was reached");
}
