// Demonstration of the C13 defect fixed by the "fix: BitSetDocSet::seek ..." commit.
// Append to src/query/bitset/mod.rs and run `cargo test --lib verif_demo_seek`:
// fails before the fix, passes after.
#[cfg(test)]
mod verif_demo {
    use common::BitSet;
    use super::BitSetDocSet;
    use crate::docset::{DocSet, TERMINATED};
    #[test]
    fn verif_demo_seek_terminated_is_sticky() {
        let mut bs = BitSet::with_max_value(130);
        for d in [64u32, 65, 66] { bs.insert(d); }
        let mut ds = BitSetDocSet::from(bs);
        assert_eq!(ds.doc(), 64);
        assert_eq!(ds.seek(TERMINATED), TERMINATED);
        assert_eq!(ds.doc(), TERMINATED);
        assert_eq!(ds.advance(), TERMINATED, "advance after the end must keep reporting the end");
    }
}
