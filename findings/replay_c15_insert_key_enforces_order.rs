// no concrete playback test was generated; failing checks reported by stock cargo-kani:
