use tantivy::collector::TopDocs;
use tantivy::query::{BooleanQuery, ConstScoreQuery, Occur, Query, TermQuery};
use tantivy::schema::{IndexRecordOption, Schema, STRING};
use tantivy::{doc, Index, IndexWriter, Term};
use tantivy::indexer::NoMergePolicy;

fn main() -> tantivy::Result<()> {
    let mut sb = Schema::builder();
    let tag = sb.add_text_field("tag", STRING);
    let index = Index::create_in_ram(sb.build());
    let mut w: IndexWriter = index.writer_with_num_threads(1, 50_000_000)?;
    w.set_merge_policy(Box::new(NoMergePolicy));
    // segment 0: scores 9,9,9,0.5
    for t in ["x", "x", "x", "z", "w"] { w.add_document(doc!(tag => t))?; }
    w.commit()?;
    // segment 1: 0.5, 0.5
    for t in ["z", "z", "w", "w", "w", "w"] { w.add_document(doc!(tag => t))?; }
    w.commit()?;
    // segment 2: four docs with score 1
    for t in ["y", "y", "y", "y"] { w.add_document(doc!(tag => t))?; }
    w.commit()?;
    let searcher = index.reader()?.searcher();
    println!("segments: {}", searcher.segment_readers().len());
    let c = |t: &str, s: f32| -> (Occur, Box<dyn Query>) {
        (Occur::Should, Box::new(ConstScoreQuery::new(Box::new(TermQuery::new(Term::from_field_text(tag, t), IndexRecordOption::Basic)), s)))
    };
    let q = BooleanQuery::new(vec![c("x", 9.0), c("y", 1.0), c("z", 0.5)]);
    let all = searcher.search(&q, &TopDocs::with_limit(100).order_by_score())?;
    let top4 = searcher.search(&q, &TopDocs::with_limit(4).order_by_score())?;
    println!("all : {:?}", all);
    println!("top4: {:?}", top4);
    let ok = all[..4] == top4[..];
    println!("top4 == first 4 of exhaustive ranking: {}", ok);
    std::process::exit(if ok { 0 } else { 1 });
}
