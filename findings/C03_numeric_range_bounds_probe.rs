// Native probe (public API only) for the four C03 range-bound findings. Copy to tests/ of the
// tantivy crate: fails on the tree before fixes 77f005acf / c27a194be / 197e20c7a / 2184c8654,
// passes after them.
use std::net::Ipv6Addr;
use std::ops::Bound;

use tantivy::collector::Count;
use tantivy::query::{QueryParser, RangeQuery};
use tantivy::schema::{JsonObjectOptions, Schema, FAST, INDEXED};
use tantivy::{Index, IndexWriter, TantivyDocument, Term};

fn json_index(values: &[&str]) -> Index {
    let mut sb = Schema::builder();
    sb.add_json_field("j", JsonObjectOptions::default().set_fast(None));
    let schema = sb.build();
    let index = Index::create_in_ram(schema.clone());
    let mut w: IndexWriter = index.writer_with_num_threads(1, 50_000_000).unwrap();
    for v in values {
        w.add_document(TantivyDocument::parse_json(&schema, &format!(r#"{{"j": {{"x": {v}}}}}"#)).unwrap()).unwrap();
    }
    w.commit().unwrap();
    index
}

fn count(index: &Index, q: &str) -> usize {
    let j = index.schema().get_field("j").unwrap();
    let query = QueryParser::for_index(index, vec![j]).parse_query(q).unwrap();
    index.reader().unwrap().searcher().search(&query, &Count).unwrap()
}

#[test]
fn u64_literal_above_i64_max_on_i64_column() {
    let index = json_index(&["-5", "-1", "0", "3", "7"]); // i64 column
    assert_eq!(count(&index, "j.x:[9223372036854775808 TO *]"), 0);
}

#[test]
fn fractional_f64_bounds_on_i64_column() {
    let index = json_index(&["-5", "-1", "0", "2", "3", "7"]);
    assert_eq!(count(&index, "j.x:[2.5 TO *]"), 2, "3 and 7");
    assert_eq!(count(&index, "j.x:{2.5 TO *]"), 2);
    assert_eq!(count(&index, "j.x:[* TO -0.5]"), 2, "-5 and -1");
    assert_eq!(count(&index, "j.x:[* TO -0.5}"), 2);
    assert_eq!(count(&index, "j.x:[-1.5 TO 2.5]"), 3, "-1, 0, 2");
}

#[test]
fn f64_upper_bound_below_zero_on_u64_column() {
    let index = json_index(&["0", "3", "18446744073709551615"]); // u64 column
    assert_eq!(count(&index, "j.x:[* TO -1.5]"), 0);
    assert_eq!(count(&index, "j.x:[* TO 3.5]"), 2);
}

#[test]
fn exclusive_ip_bound_at_the_extreme_address() {
    let mut sb = Schema::builder();
    let ip = sb.add_ip_addr_field("ip", FAST | INDEXED);
    let schema = sb.build();
    let index = Index::create_in_ram(schema);
    let mut w: IndexWriter = index.writer_with_num_threads(1, 50_000_000).unwrap();
    for a in [Ipv6Addr::from(1u128), Ipv6Addr::from(u128::MAX), Ipv6Addr::from(0u128)] {
        let mut d = TantivyDocument::default();
        d.add_ip_addr(ip, a);
        w.add_document(d).unwrap();
    }
    w.commit().unwrap();
    let searcher = index.reader().unwrap().searcher();
    let above_max = RangeQuery::new(Bound::Excluded(Term::from_field_ip_addr(ip, Ipv6Addr::from(u128::MAX))), Bound::Unbounded);
    assert_eq!(searcher.search(&above_max, &Count).unwrap(), 0);
    let below_min = RangeQuery::new(Bound::Unbounded, Bound::Excluded(Term::from_field_ip_addr(ip, Ipv6Addr::from(0u128))));
    assert_eq!(searcher.search(&below_min, &Count).unwrap(), 0);
}
