use tantivy_columnar::column_values::{serialize_and_load_u64_based_column_values, CodecType, ColumnValues};

fn main() {
    let vals: Vec<u64> = vec![10, 11, 12, 10, 13];
    for codec in [CodecType::Bitpacked] {
        let col = serialize_and_load_u64_based_column_values::<u64>(&&vals[..], &[codec]);
        let mut positions = Vec::new();
        col.get_row_ids_for_value_range(2..=5, 0..vals.len() as u32, &mut positions);
        println!("{:?}: rows with value in 2..=5 (column values {:?}): {:?}", codec, vals, positions);
        if !positions.is_empty() {
            std::process::exit(1);
        }
    }
}
