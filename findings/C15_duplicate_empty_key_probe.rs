use tantivy_sstable::{Dictionary, VoidSSTable};

fn try_keys(keys: &[&[u8]]) -> Result<u64, String> {
    let r = std::panic::catch_unwind(|| {
        let mut b = Dictionary::<VoidSSTable>::builder(Vec::new()).unwrap();
        for k in keys {
            b.insert(k, &()).unwrap();
        }
        let bytes = b.finish().unwrap();
        let d = Dictionary::<VoidSSTable>::from_bytes(tantivy_common::OwnedBytes::new(bytes)).unwrap();
        d.num_terms() as u64
    });
    r.map_err(|_| "rejected (panic)".to_string())
}

fn main() {
    println!("[a, a]      -> {:?}", try_keys(&[b"a", b"a"]));
    println!("[b, a]      -> {:?}", try_keys(&[b"b", b"a"]));
    println!("['', '']    -> {:?}", try_keys(&[b"", b""]));
    println!("['', a, ''] -> {:?}", try_keys(&[b"", b"a", b""]));
}
