// Scenario contributed by a mutation sub-agent (seed C02b), public API only: an update
// (delete_term + add) whose new version lands in a second, still uncommitted segment must
// survive the merge of the two uncommitted segments and the commit. Assertions panic; the caller
// catches the panic.
#![allow(dead_code)]
// Demo for seed C02b.
// 
// Bulk "upsert" load on a single indexing thread:
// 
//   * enough documents are added for the memory budget to cut a first segment,
//   * then the document with key "k" is updated the usual way
//     (`delete_term(k)` followed by `add_document(k, version 2)`); the new version lands in
//     the second (still open) segment,
//   * the merge policy merges the two not yet committed segments,
//   * `commit()`.
// 
// Replaying the operations in call order, the freshly loaded searcher must contain every
// filler document exactly once, must not contain version 1 of "k" and must contain
// version 2 of "k" exactly once (a delete only removes documents added *before* it).

use std::sync::{Arc, Mutex};

use tantivy::collector::{Count, DocSetCollector};
use tantivy::indexer::{MergeCandidate, MergePolicy, NoMergePolicy};
use tantivy::query::{AllQuery, TermQuery};
use tantivy::schema::{Field, IndexRecordOption, Schema, Value, INDEXED, STORED, STRING, TEXT};
use tantivy::{doc, Index, IndexWriter, SegmentMeta, TantivyDocument, Term};

const MEMORY_BUDGET: usize = 15_000_000;

/// Merges all the segments it is shown as soon as there are at least two of them,
/// biggest segment first. Records the `max_doc` of the segments of the merges it asked for.
#[derive(Debug, Default)]
struct MergeBiggestFirst {
    asked: Arc<Mutex<Vec<Vec<u32>>>>,
}

impl MergePolicy for MergeBiggestFirst {
    fn compute_merge_candidates(&self, segments: &[SegmentMeta]) -> Vec<MergeCandidate> {
        if segments.len() < 2 {
            return Vec::new();
        }
        let mut segments: Vec<&SegmentMeta> = segments.iter().collect();
        segments.sort_by_key(|meta| std::cmp::Reverse(meta.max_doc()));
        self.asked
            .lock()
            .unwrap()
            .push(segments.iter().map(|meta| meta.max_doc()).collect());
        vec![MergeCandidate(
            segments.iter().map(|meta| meta.id()).collect(),
        )]
    }
}

struct Fields {
    key: Field,
    version: Field,
    body: Field,
}

fn make_index() -> (Index, Fields) {
    let mut schema_builder = Schema::builder();
    let key = schema_builder.add_text_field("key", STRING | STORED);
    let version = schema_builder.add_u64_field("version", INDEXED | STORED);
    let body = schema_builder.add_text_field("body", TEXT);
    let index = Index::create_in_ram(schema_builder.build());
    (index, Fields { key, version, body })
}

/// A document with a few hundred tokens that no other document contains: it makes the memory
/// usage of the segment writer grow quickly (and deterministically).
fn filler_body(i: usize) -> String {
    let mut body = String::new();
    for j in 0..300 {
        body.push_str(&format!("tok{i}x{j} "));
    }
    body
}

fn add_filler(writer: &IndexWriter, fields: &Fields, i: usize) -> tantivy::Result<()> {
    // The document number 10 is the first version of the document we update later.
    let key = if i == 10 {
        "k".to_string()
    } else {
        format!("filler{i}")
    };
    writer.add_document(doc!(
        fields.key => key,
        fields.version => 1u64,
        fields.body => filler_body(i),
    ))?;
    Ok(())
}

/// Number of documents after which the memory budget cuts the first segment, measured on a
/// scratch index fed with the very same documents.
fn calibrate_first_segment_len() -> tantivy::Result<usize> {
    let mut total = 1_000;
    loop {
        let (index, fields) = make_index();
        let mut writer: IndexWriter = index.writer_with_num_threads(1, MEMORY_BUDGET)?;
        writer.set_merge_policy(Box::new(NoMergePolicy));
        for i in 0..total {
            add_filler(&writer, &fields, i)?;
        }
        writer.commit()?;
        let searcher = index.reader()?.searcher();
        if searcher.segment_readers().len() >= 2 {
            // the first segment is the one holding the very first document.
            let query = TermQuery::new(
                Term::from_field_text(fields.key, "filler0"),
                IndexRecordOption::Basic,
            );
            let addrs = searcher.search(&query, &DocSetCollector)?;
            assert_eq!(addrs.len(), 1);
            let addr = addrs.into_iter().next().unwrap();
            return Ok(searcher.segment_reader(addr.segment_ord).max_doc() as usize);
        }
        // not cut yet: start over with twice as many documents.
        total *= 2;
        assert!(total < 400_000, "the memory budget never cut a segment");
    }
}

fn count_term(index: &Index, term: Term) -> tantivy::Result<usize> {
    let searcher = index.reader()?.searcher();
    let query = TermQuery::new(term, IndexRecordOption::Basic);
    Ok(searcher.search(&query, &Count)?)
}

fn versions_of_k(index: &Index, fields: &Fields) -> tantivy::Result<Vec<u64>> {
    let searcher = index.reader()?.searcher();
    let query = TermQuery::new(
        Term::from_field_text(fields.key, "k"),
        IndexRecordOption::Basic,
    );
    let mut versions = Vec::new();
    for addr in searcher.search(&query, &DocSetCollector)? {
        let doc: TantivyDocument = searcher.doc(addr)?;
        versions.push(doc.get_first(fields.version).unwrap().as_u64().unwrap());
    }
    versions.sort_unstable();
    Ok(versions)
}

fn num_docs(index: &Index) -> tantivy::Result<usize> {
    let searcher = index.reader()?.searcher();
    let count = searcher.search(&AllQuery, &Count)?;
    assert_eq!(count as u64, searcher.num_docs());
    Ok(count)
}

pub fn run() -> tantivy::Result<()> {
    let first_segment_len = calibrate_first_segment_len()?;
    assert!(first_segment_len > 20);
    // enough documents to have the first segment cut by the memory budget, and a second,
    // smaller, segment still open when we commit.
    let num_fillers = first_segment_len + first_segment_len / 4;

    let (index, fields) = make_index();
    let mut writer: IndexWriter = index.writer_with_num_threads(1, MEMORY_BUDGET)?;
    let asked: Arc<Mutex<Vec<Vec<u32>>>> = Default::default();
    writer.set_merge_policy(Box::new(MergeBiggestFirst {
        asked: asked.clone(),
    }));

    for i in 0..num_fillers {
        add_filler(&writer, &fields, i)?;
    }
    // the update of document "k".
    let delete_opstamp = writer.delete_term(Term::from_field_text(fields.key, "k"));
    let add_opstamp = writer.add_document(doc!(
        fields.key => "k",
        fields.version => 2u64,
        fields.body => "second version",
    ))?;
    assert!(delete_opstamp < add_opstamp);

    let commit_opstamp = writer.commit()?;
    assert!(commit_opstamp > add_opstamp);
    assert_eq!(index.load_metas()?.opstamp, commit_opstamp);

    // --- right after the commit.
    assert_eq!(num_docs(&index)?, num_fillers, "num docs after commit");
    assert_eq!(
        versions_of_k(&index, &fields)?,
        vec![2u64],
        "versions of `k` after commit"
    );

    // --- once the merge of the two segments has been published too.
    writer.wait_merging_threads()?;
    {
        // sanity check of the scenario: the first merge was [cut segment, small segment].
        let asked = asked.lock().unwrap();
        assert!(!asked.is_empty(), "no merge was started");
        assert_eq!(
            asked[0],
            vec![
                first_segment_len as u32,
                (num_fillers + 1 - first_segment_len) as u32
            ]
        );
    }
    assert_eq!(index.load_metas()?.opstamp, commit_opstamp);
    assert_eq!(
        versions_of_k(&index, &fields)?,
        vec![2u64],
        "versions of `k` after the merge"
    );
    assert_eq!(num_docs(&index)?, num_fillers, "num docs after the merge");
    assert_eq!(
        count_term(&index, Term::from_field_u64(fields.version, 2u64))?,
        1
    );

    // --- and it stays so after re-opening a writer and committing again.
    let mut writer: IndexWriter = index.writer_with_num_threads(1, MEMORY_BUDGET)?;
    writer.set_merge_policy(Box::new(NoMergePolicy));
    writer.commit()?;
    assert_eq!(
        versions_of_k(&index, &fields)?,
        vec![2u64],
        "versions of `k` after re-open"
    );
    assert_eq!(num_docs(&index)?, num_fillers, "num docs after re-open");
    Ok(())
}
