// Scenario contributed by a mutation sub-agent (seed C02c), public API only: groups of adds handed to
// IndexWriter::run survive a memory-budget segment cut (every id exactly once after commit).
#![allow(dead_code)]
// Demo for seed C02c.
// 
// Documents are added through `IndexWriter::run` in groups of 50 operations. The documents
// are large enough for the indexing worker to reach its memory budget (and therefore cut a
// new segment) while it is in the middle of a group. Whatever the memory budget, after
// `commit` every added document must be searchable, exactly once.

use tantivy::collector::Count;
use tantivy::indexer::{NoMergePolicy, UserOperation};
use tantivy::query::{AllQuery, TermQuery};
use tantivy::schema::{IndexRecordOption, Schema, INDEXED, STORED, TEXT};
use tantivy::{doc, Index, IndexWriter, TantivyDocument, Term};

const NUM_GROUPS: u64 = 6;
const GROUP_LEN: u64 = 50;
const TOKENS_PER_DOC: u64 = 3_000;

fn body_of(id: u64) -> String {
    // Only unique tokens, so that the memory arena fills up quickly.
    let mut body = String::new();
    for j in 0..TOKENS_PER_DOC {
        body.push_str(&format!("d{id}t{j} "));
    }
    body
}

pub fn run() -> tantivy::Result<()> {
    let mut schema_builder = Schema::builder();
    let id_field = schema_builder.add_u64_field("id", INDEXED | STORED);
    let body_field = schema_builder.add_text_field("body", TEXT);
    let index = Index::create_in_ram(schema_builder.build());

    // Smallest accepted budget: one thread, 15MB.
    let mut writer: IndexWriter = index.writer_with_num_threads(1, 15_000_000)?;
    writer.set_merge_policy(Box::new(NoMergePolicy));

    let mut last_op_opstamp = 0;
    for group in 0..NUM_GROUPS {
        let ops: Vec<UserOperation<TantivyDocument>> = (0..GROUP_LEN)
            .map(|i| {
                let id = group * GROUP_LEN + i;
                UserOperation::Add(doc!(id_field => id, body_field => body_of(id)))
            })
            .collect();
        last_op_opstamp = writer.run(ops)?;
    }
    let commit_opstamp = writer.commit()?;
    assert!(commit_opstamp > last_op_opstamp);
    assert_eq!(index.load_metas()?.opstamp, commit_opstamp);

    // Sanity check of the scenario: the memory budget did cut several segments.
    let segment_metas = index.searchable_segment_metas()?;
    assert!(
        segment_metas.len() > 1,
        "the scenario is expected to exceed the memory budget of the worker"
    );

    // A freshly loaded searcher.
    let searcher = index.reader()?.searcher();
    let mut missing_ids = Vec::new();
    for id in 0..NUM_GROUPS * GROUP_LEN {
        let query = TermQuery::new(
            Term::from_field_u64(id_field, id),
            IndexRecordOption::Basic,
        );
        let count = searcher.search(&query, &Count)?;
        assert!(count <= 1, "document {id} is present {count} times");
        if count == 0 {
            missing_ids.push(id);
        }
    }
    assert!(
        missing_ids.is_empty(),
        "{} documents added before the commit are missing ({} segments): {:?}",
        missing_ids.len(),
        segment_metas.len(),
        missing_ids
    );
    assert_eq!(
        searcher.search(&AllQuery, &Count)?,
        (NUM_GROUPS * GROUP_LEN) as usize
    );
    Ok(())
}
