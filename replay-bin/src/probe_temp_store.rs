// Scenario contributed by a mutation sub-agent (seed C10c), public API only: after commits and a garbage
// collection on a sorted index no temporary doc store survives and the managed files are exactly the
// committed ones.
#![allow(dead_code)]
// Demo for seed C10c.
// 
// After `commit()` has returned, merges are finished and garbage collection has run,
// the directory must hold exactly the files of the committed segments plus the index
// metadata. With the seeded change, an index that is sorted (`sort_by_field`) keeps the
// temporary docstore (`<segment>.store.temp`) of every freshly flushed segment around,
// registered as managed and reported as "living", for as long as the writer is alive.

use std::collections::HashSet;
use std::path::PathBuf;

use tantivy::directory::RamDirectory;
use tantivy::schema::{Schema, FAST, STORED, TEXT};
use tantivy::index::SegmentComponent;
use tantivy::{doc, Directory, Index, IndexSettings, IndexSortByField, IndexWriter, Order};

/// Files that the latest commit needs, as seen by somebody opening the index from scratch.
fn expected_files(directory: &RamDirectory) -> HashSet<PathBuf> {
    let fresh_index = Index::open(directory.clone()).unwrap();
    let mut expected: HashSet<PathBuf> = HashSet::new();
    for segment_meta in fresh_index.searchable_segment_metas().unwrap() {
        for path in segment_meta.list_files() {
            if directory.exists(&path).unwrap() {
                expected.insert(path);
            }
        }
    }
    expected.insert(PathBuf::from("meta.json"));
    expected
}

fn run_with(settings: IndexSettings) {
    let mut schema_builder = Schema::builder();
    let text = schema_builder.add_text_field("text", TEXT | STORED);
    let rank = schema_builder.add_u64_field("rank", FAST | STORED);
    let schema = schema_builder.build();

    let directory = RamDirectory::create();
    let index = Index::create(directory.clone(), schema, settings).unwrap();
    let mut writer: IndexWriter = index.writer_with_num_threads(1, 20_000_000).unwrap();

    for round in 0..2u64 {
        for i in 0..10u64 {
            writer
                .add_document(doc!(text => "hello world", rank => (round * 100 + (7 * i) % 10)))
                .unwrap();
        }
        writer.commit().unwrap();
    }
    // An explicit garbage collection, for good measure.
    writer.garbage_collect_files().wait().unwrap();

    let managed: HashSet<PathBuf> = index.directory().list_managed_files();
    let expected = expected_files(&directory);

    // (the persisted-list comparison of the original scenario needs serde_json and is left out)

    // No temporary docstore is left behind.
    for segment_meta in index.searchable_segment_metas().unwrap() {
        let temp_store = segment_meta.relative_path(SegmentComponent::TempStore);
        assert!(
            !directory.exists(&temp_store).unwrap(),
            "orphan temporary docstore {temp_store:?} survived commit + garbage collection"
        );
    }

    // The managed files are exactly the files of the committed segments + meta.json.
    let mut orphans: Vec<&PathBuf> = managed.difference(&expected).collect();
    orphans.sort();
    assert!(
        orphans.is_empty(),
        "orphan files after commit + garbage collection: {orphans:?}"
    );
    for path in &managed {
        assert!(directory.exists(path).unwrap(), "managed file {path:?} is missing");
    }

    // The index is still readable.
    let searcher = index.reader().unwrap().searcher();
    assert_eq!(searcher.num_docs(), 20);
    drop(writer);
}

fn unsorted_index_leaves_no_orphan() {
    run_with(IndexSettings::default());
}

fn sorted_index_leaves_no_orphan() {
    run_with(IndexSettings {
        sort_by_field: Some(IndexSortByField {
            field: "rank".to_string(),
            order: Order::Asc,
        }),
        ..Default::default()
    });
}

pub fn run() -> tantivy::Result<()> {
    unsorted_index_leaves_no_orphan();
    sorted_index_leaves_no_orphan();
    Ok(())
}
