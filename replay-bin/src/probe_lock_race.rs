// Scenario contributed by a mutation sub-agent (seed C18c), public API only: threads released from
// a spinning rendezvous race for the writer lock of one RamDirectory; exactly one may win each
// round. A race test: it can miss a defect, it cannot invent one.
#![allow(dead_code)]
// Seed C18c demo: "at most one writer per index", exercised from several
// threads and several `Index` instances that share one `RamDirectory`.
// 
// Every round, all the threads try to open an `IndexWriter` (resp. to take
// the writer lock) at the very same moment. Exactly one of them may win, the
// others must get `LockFailure(LockBusy)`. Once all the winners are dropped,
// the next round must be able to open a writer again.
// 
// Public API only. Copy to `tests/seed_demo.rs` of the tantivy crate.

use std::sync::atomic::{AtomicBool, AtomicUsize, Ordering};
use std::sync::Arc;
use std::thread;

use tantivy::directory::error::LockError;
use tantivy::directory::{Directory, RamDirectory, INDEX_WRITER_LOCK};
use tantivy::schema::{Schema, STORED, TEXT};
use tantivy::{doc, Index, IndexSettings, IndexWriter, TantivyError};

/// Reusable spinning rendezvous: tighter than `std::sync::Barrier`, so that
/// the threads leave it within a few nanoseconds of each other.
struct Rendezvous {
    num_threads: usize,
    arrived: AtomicUsize,
}

impl Rendezvous {
    fn new(num_threads: usize) -> Rendezvous {
        Rendezvous {
            num_threads,
            arrived: AtomicUsize::new(0),
        }
    }

    fn wait(&self) {
        let ticket = self.arrived.fetch_add(1, Ordering::SeqCst);
        let target = (ticket / self.num_threads + 1) * self.num_threads;
        let mut spins = 0u32;
        while self.arrived.load(Ordering::SeqCst) < target {
            spins += 1;
            if spins % 4096 == 0 {
                thread::yield_now();
            } else {
                std::hint::spin_loop();
            }
        }
    }
}

/// Runs `num_rounds` rounds of `num_threads` simultaneous attempts.
/// `attempt(thread_id)` returns `Some(guard)` if the thread got hold of the
/// writer (lock), `None` if it was refused with a lock error.
/// Returns the list of (round, number of simultaneous holders) for the rounds
/// in which the number of holders was not exactly one.
fn race<G, F>(num_threads: usize, num_rounds: usize, attempt: F) -> Vec<(usize, usize)>
where
    F: Fn(usize) -> Option<G> + Send + Sync + 'static,
    G: 'static,
{
    let attempt = Arc::new(attempt);
    let rendezvous = Arc::new(Rendezvous::new(num_threads));
    let holders: Arc<Vec<AtomicUsize>> =
        Arc::new((0..num_rounds).map(|_| AtomicUsize::new(0)).collect());
    let stop = Arc::new(AtomicBool::new(false));
    let rounds_done = Arc::new(AtomicUsize::new(0));
    let handles: Vec<_> = (0..num_threads)
        .map(|thread_id| {
            let attempt = attempt.clone();
            let rendezvous = rendezvous.clone();
            let holders = holders.clone();
            let stop = stop.clone();
            let rounds_done = rounds_done.clone();
            thread::spawn(move || {
                for round in 0..num_rounds {
                    // Nobody holds the lock at this point.
                    rendezvous.wait();
                    let guard = attempt(thread_id);
                    if guard.is_some() {
                        holders[round].fetch_add(1, Ordering::SeqCst);
                    }
                    // All attempts are done, all the winners are still alive.
                    rendezvous.wait();
                    if thread_id == 0 {
                        rounds_done.store(round + 1, Ordering::SeqCst);
                        // No need to go on after the first violation.
                        if holders[round].load(Ordering::SeqCst) != 1 {
                            stop.store(true, Ordering::SeqCst);
                        }
                    }
                    drop(guard);
                    // All the winners have been dropped: the lock is free again.
                    rendezvous.wait();
                    if stop.load(Ordering::SeqCst) {
                        break;
                    }
                }
            })
        })
        .collect();
    for handle in handles {
        handle.join().unwrap();
    }
    holders
        .iter()
        .take(rounds_done.load(Ordering::SeqCst))
        .enumerate()
        .map(|(round, count)| (round, count.load(Ordering::SeqCst)))
        .filter(|&(_, count)| count != 1)
        .collect()
}

/// `IndexWriter` level: one `Index` instance per thread, all of them opened on
/// the same (shared) `RamDirectory`.
pub fn at_most_one_index_writer_across_threads_and_index_instances() {
    const NUM_THREADS: usize = 4;
    const NUM_ROUNDS: usize = 200;

    let mut schema_builder = Schema::builder();
    let text = schema_builder.add_text_field("text", TEXT | STORED);
    let schema = schema_builder.build();

    let ram_directory = RamDirectory::create();
    let first_index =
        Index::create(ram_directory.clone(), schema, IndexSettings::default()).unwrap();
    let mut indexes = vec![first_index];
    for _ in 1..NUM_THREADS {
        indexes.push(Index::open(ram_directory.clone()).unwrap());
    }

    let bad_rounds = race(NUM_THREADS, NUM_ROUNDS, move |thread_id| {
        match indexes[thread_id].writer_with_num_threads(1, 15_000_000) {
            Ok(index_writer) => {
                let index_writer: IndexWriter = index_writer;
                // The winner is a perfectly usable writer.
                index_writer.add_document(doc!(text => "hello")).unwrap();
                Some(index_writer)
            }
            Err(TantivyError::LockFailure(LockError::LockBusy, _)) => None,
            Err(other) => panic!("expected a LockBusy lock failure, got {other:?}"),
        }
    });
    assert!(
        bad_rounds.is_empty(),
        "rounds in which the number of simultaneously alive IndexWriter was not exactly 1 (round, \
         #writers): {bad_rounds:?}"
    );

    // And of course a writer can be opened once everything is over.
    let index = Index::open(ram_directory).unwrap();
    let _index_writer: IndexWriter = index.writer_with_num_threads(1, 15_000_000).unwrap();
}

/// Same thing one layer below (this is exactly the call `Index::writer*` makes),
/// which is much cheaper and allows for many more rounds.
pub fn at_most_one_writer_lock_holder_across_threads() {
    const NUM_THREADS: usize = 4;
    const NUM_ROUNDS: usize = 5_000;

    let ram_directory = RamDirectory::create();
    let directories: Vec<RamDirectory> = (0..NUM_THREADS).map(|_| ram_directory.clone()).collect();

    let bad_rounds = race(NUM_THREADS, NUM_ROUNDS, move |thread_id| {
        match directories[thread_id].acquire_lock(&INDEX_WRITER_LOCK) {
            Ok(directory_lock) => Some(directory_lock),
            Err(LockError::LockBusy) => None,
            Err(other) => panic!("expected LockBusy, got {other:?}"),
        }
    });
    assert!(
        bad_rounds.is_empty(),
        "rounds in which the number of simultaneous holders of the writer lock was not exactly 1 \
         (round, #holders): {bad_rounds:?}"
    );
    assert!(ram_directory.acquire_lock(&INDEX_WRITER_LOCK).is_ok());
}

pub fn run() -> tantivy::Result<()> {
    at_most_one_writer_lock_holder_across_threads();
    at_most_one_index_writer_across_threads_and_index_instances();
    Ok(())
}
