// Scenario contributed by a mutation sub-agent (seed C05b), public API only: a delete queued but
// not committed must not become visible through a background merge of committed segments.
#![allow(dead_code)]
// Readers must only ever see whole commits: a delete that was queued on the
// writer but never committed must not become visible just because a
// background merge of *committed* segments happened in the meantime.

use tantivy::collector::Count;
use tantivy::indexer::{LogMergePolicy, NoMergePolicy};
use tantivy::query::TermQuery;
use tantivy::schema::{IndexRecordOption, Schema, FAST, INDEXED, STORED};
use tantivy::{doc, Index, IndexWriter, ReloadPolicy, Term};

pub fn run() -> tantivy::Result<()> {
    let mut schema_builder = Schema::builder();
    let id = schema_builder.add_u64_field("id", INDEXED | FAST | STORED);
    let index = Index::create_in_ram(schema_builder.build());

    let mut writer: IndexWriter = index.writer_with_num_threads(1, 20_000_000)?;
    writer.set_merge_policy(Box::new(NoMergePolicy));

    // Four commits -> four committed single-threaded segments, two docs each.
    for seg in 0..4u64 {
        writer.add_document(doc!(id => 2 * seg))?;
        writer.add_document(doc!(id => 2 * seg + 1))?;
        writer.commit()?;
    }
    let last_commit_opstamp = index.load_metas()?.opstamp;

    let reader = index
        .reader_builder()
        .reload_policy(ReloadPolicy::Manual)
        .try_into()?;
    let count_id = |searcher: &tantivy::Searcher, val: u64| -> tantivy::Result<usize> {
        let q = TermQuery::new(Term::from_field_u64(id, val), IndexRecordOption::Basic);
        searcher.search(&q, &Count)
    };
    let before = reader.searcher();
    assert_eq!(before.num_docs(), 8);
    assert_eq!(before.segment_readers().len(), 4);
    assert_eq!(count_id(&before, 0)?, 1);

    // Segment ids in doc order: find the two segments that do NOT hold id 0 / id 1,
    // we will merge two of those by hand.
    let mut others = Vec::new();
    for segment_reader in before.segment_readers() {
        let inv = segment_reader.inverted_index(id)?;
        if inv.doc_freq(&Term::from_field_u64(id, 0))? == 0 {
            others.push(segment_reader.segment_id());
        }
    }
    assert_eq!(others.len(), 3);

    // From now on the merge policy is allowed to merge in the background.
    let mut log_merge_policy = LogMergePolicy::default();
    log_merge_policy.set_min_num_segments(2);
    writer.set_merge_policy(Box::new(log_merge_policy));

    // Queue a delete. It is NOT committed.
    writer.delete_term(Term::from_field_u64(id, 0));

    // A manual merge of two committed segments (unrelated to the deleted doc).
    // When it ends, the merge policy is consulted and merges the remaining
    // committed segments in the background.
    writer.merge(&others[..2]).wait()?;
    // Wait for all background merges. The writer is dropped without a commit.
    writer.wait_merging_threads()?;

    // No commit happened since `last_commit_opstamp`...
    assert_eq!(index.load_metas()?.opstamp, last_commit_opstamp);

    // ... so a reload must show exactly the state of that commit.
    reader.reload()?;
    let after = reader.searcher();
    assert!(
        after.segment_readers().len() < 3,
        "the background merge was expected to have happened"
    );
    assert_eq!(
        count_id(&after, 0)?,
        1,
        "doc id=0 vanished although its delete was never committed"
    );
    assert_eq!(after.num_docs(), 8);

    // Same thing for a fresh reader on the same directory.
    let fresh = index.reader()?.searcher();
    assert_eq!(fresh.num_docs(), 8);

    // The old snapshot is still intact.
    assert_eq!(before.num_docs(), 8);
    assert_eq!(count_id(&before, 0)?, 1);
    Ok(())
}
