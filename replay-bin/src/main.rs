//! Native replay for mirproto (Engine M) counterexamples.
//!
//! Runs a fixed multi-step scenario of the public tantivy API on a recording, fault-injecting
//! `Directory` (a wrapper around `RamDirectory`) and prints every storage operation as one JSON
//! line:  {"n":k,"op":"...","path":"...","ok":true,"thread":"..."}   followed by
//! {"api":"commit","ok":true} lines for API calls. `--fail <op>:<occurrence>` makes the
//! occurrence-th operation of that kind return an I/O error.
use std::io::{self, Write};
use std::path::{Path, PathBuf};
use std::sync::atomic::{AtomicUsize, Ordering};
use std::sync::{Arc, Mutex};

use tantivy::directory::error::{DeleteError, LockError, OpenReadError, OpenWriteError};
use tantivy::directory::{
    AntiCallToken, Directory, DirectoryLock, FileHandle, Lock, RamDirectory, TerminatingWrite, WatchCallback,
    WatchHandle, WritePtr,
};
use tantivy::collector::TopDocs;
use tantivy::query::{BooleanQuery, ConstScoreQuery, Occur, Query, TermQuery};
use tantivy::schema::{IndexRecordOption, Schema, STORED, STRING, TEXT};
use tantivy::{doc, Index, IndexWriter, ReloadPolicy, Term};

#[derive(Clone)]
struct Rec {
    inner: RamDirectory,
    log: Arc<Mutex<Vec<String>>>,
    counter: Arc<AtomicUsize>,
    fail_op: Option<String>,
    fail_occ: usize,
    seen: Arc<Mutex<std::collections::HashMap<String, usize>>>,
}

impl std::fmt::Debug for Rec {
    fn fmt(&self, f: &mut std::fmt::Formatter<'_>) -> std::fmt::Result {
        write!(f, "Rec")
    }
}

fn esc(p: &Path) -> String {
    p.to_string_lossy().replace('\\', "/").replace('"', "'")
}

impl Rec {
    /// returns true when this operation must fail
    fn event(&self, op: &str, path: &Path) -> bool {
        let mut seen = self.seen.lock().unwrap();
        let c = seen.entry(op.to_string()).or_insert(0);
        *c += 1;
        let occ = *c;
        drop(seen);
        let fail = self.fail_op.as_deref() == Some(op) && occ == self.fail_occ;
        let n = self.counter.fetch_add(1, Ordering::SeqCst);
        let t = std::thread::current();
        self.log.lock().unwrap().push(format!(
            "{{\"n\":{},\"op\":\"{}\",\"occ\":{},\"path\":\"{}\",\"ok\":{},\"thread\":\"{}\"}}",
            n,
            op,
            occ,
            esc(path),
            !fail,
            t.name().unwrap_or("?")
        ));
        fail
    }
    fn api(&self, what: &str, ok: bool) {
        let n = self.counter.fetch_add(1, Ordering::SeqCst);
        self.log.lock().unwrap().push(format!("{{\"n\":{},\"api\":\"{}\",\"ok\":{}}}", n, what, ok));
    }
}

struct RecWriter {
    inner: WritePtr,
    dir: Rec,
    path: PathBuf,
}
impl Write for RecWriter {
    fn write(&mut self, buf: &[u8]) -> io::Result<usize> {
        self.inner.write(buf)
    }
    fn flush(&mut self) -> io::Result<()> {
        if self.dir.event("flush", &self.path) {
            return Err(io::Error::other("injected"));
        }
        self.inner.flush()
    }
}
impl TerminatingWrite for RecWriter {
    fn terminate_ref(&mut self, _: AntiCallToken) -> io::Result<()> {
        if self.dir.event("terminate", &self.path) {
            return Err(io::Error::other("injected"));
        }
        self.inner.flush()?;
        // RamDirectory's writer persists the content on flush / terminate
        let inner = std::mem::replace(&mut self.inner, io::BufWriter::new(Box::new(NullW)));
        inner.terminate()
    }
}
struct NullW;
impl Write for NullW {
    fn write(&mut self, b: &[u8]) -> io::Result<usize> {
        Ok(b.len())
    }
    fn flush(&mut self) -> io::Result<()> {
        Ok(())
    }
}
impl TerminatingWrite for NullW {
    fn terminate_ref(&mut self, _: AntiCallToken) -> io::Result<()> {
        Ok(())
    }
}

impl Directory for Rec {
    fn get_file_handle(&self, path: &Path) -> Result<Arc<dyn FileHandle>, OpenReadError> {
        if self.event("open_read", path) {
            return Err(OpenReadError::wrap_io_error(io::Error::other("injected"), path.to_path_buf()));
        }
        self.inner.get_file_handle(path)
    }
    fn delete(&self, path: &Path) -> Result<(), DeleteError> {
        if self.event("delete", path) {
            return Err(DeleteError::IoError { io_error: Arc::new(io::Error::other("injected")), filepath: path.to_path_buf() });
        }
        self.inner.delete(path)
    }
    fn exists(&self, path: &Path) -> Result<bool, OpenReadError> {
        self.inner.exists(path)
    }
    fn open_write(&self, path: &Path) -> Result<WritePtr, OpenWriteError> {
        if self.event("open_write", path) {
            return Err(OpenWriteError::wrap_io_error(io::Error::other("injected"), path.to_path_buf()));
        }
        let w = self.inner.open_write(path)?;
        Ok(io::BufWriter::new(Box::new(RecWriter { inner: w, dir: self.clone(), path: path.to_path_buf() })))
    }
    fn atomic_read(&self, path: &Path) -> Result<Vec<u8>, OpenReadError> {
        if self.event("atomic_read", path) {
            return Err(OpenReadError::wrap_io_error(io::Error::other("injected"), path.to_path_buf()));
        }
        self.inner.atomic_read(path)
    }
    fn atomic_write(&self, path: &Path, data: &[u8]) -> io::Result<()> {
        if self.event("atomic_write", path) {
            return Err(io::Error::other("injected"));
        }
        self.inner.atomic_write(path, data)
    }
    fn sync_directory(&self) -> io::Result<()> {
        if self.event("sync_directory", Path::new("")) {
            return Err(io::Error::other("injected"));
        }
        self.inner.sync_directory()
    }
    fn acquire_lock(&self, lock: &Lock) -> Result<DirectoryLock, LockError> {
        self.event("acquire_lock", &lock.filepath);
        let r = self.inner.acquire_lock(lock);
        if r.is_ok() {
            let me = self.clone();
            let p = lock.filepath.clone();
            struct G(Rec, PathBuf, #[allow(dead_code)] DirectoryLock);
            impl Drop for G {
                fn drop(&mut self) {
                    self.0.event("release_lock", &self.1);
                }
            }
            return Ok(DirectoryLock::from(Box::new(G(me, p, r.unwrap()))));
        }
        r
    }
    fn watch(&self, cb: WatchCallback) -> tantivy::Result<WatchHandle> {
        self.inner.watch(cb)
    }
}

/// `--json-range <literal type> <column type> <lower|upper> <Included|Excluded> <literal> <column value>`:
/// replays a counterexample of the bound-transformation obligation on a real index: a JSON fast
/// field whose column `x` has the given numeric type and holds the given value, a one-sided range
/// query with a literal of the given type; ok = (the value's document matches) == (it should).
fn json_range_probe(a: &[String]) -> tantivy::Result<bool> {
    use std::ops::Bound;
    use tantivy::collector::DocSetCollector;
    use tantivy::query::RangeQuery;
    use tantivy::schema::JsonObjectOptions;
    let (lit_ty, col_ty, side, kind) = (a[0].as_str(), a[1].as_str(), a[2].as_str(), a[3].as_str());
    let lit: i128 = a[4].parse().unwrap();
    let val: i128 = a[5].parse().unwrap();
    let mut sb = Schema::builder();
    let j = sb.add_json_field("j", JsonObjectOptions::default().set_fast(None));
    let schema = sb.build();
    let index = Index::create_in_ram(schema.clone());
    let mut w: IndexWriter = index.writer_with_num_threads(1, 50_000_000)?;
    // doc 0 holds the value; doc 1 pins the column type (a negative value makes the column i64,
    // a value above i64::MAX makes it u64)
    let pin: i128 = if col_ty == "i64" { -1 } else { u64::MAX as i128 };
    for v in [val, pin] {
        let d = tantivy::TantivyDocument::parse_json(&schema, &format!(r#"{{"j": {{"x": {v}}}}}"#))?;
        w.add_document(d)?;
    }
    w.commit()?;
    let mut term = Term::from_field_json_path(j, "x", true);
    if lit_ty == "i64" {
        term.append_type_and_fast_value(lit as i64);
    } else {
        term.append_type_and_fast_value(lit as u64);
    }
    let b = if kind == "Included" { Bound::Included(term) } else { Bound::Excluded(term) };
    let q = if side == "lower" { RangeQuery::new(b, Bound::Unbounded) } else { RangeQuery::new(Bound::Unbounded, b) };
    let searcher = index.reader()?.searcher();
    let hits = searcher.search(&q, &DocSetCollector)?;
    let matched = hits.iter().any(|a| a.doc_id == 0);
    let should = match (side, kind) {
        ("lower", "Included") => val >= lit,
        ("lower", _) => val > lit,
        ("upper", "Included") => val <= lit,
        _ => val < lit,
    };
    Ok(searcher.segment_readers().len() == 1 && matched == should)
}

/// `--sorted-segment <i64|u64> <a> <b>`: replays a counterexample of the sort-key obligation: an
/// index sorted ascending by a fast field, one segment holding the two values (inserted in both
/// orders, four documents); the segment must come out in ascending order of the field.
fn sorted_segment_probe(a: &[String]) -> tantivy::Result<bool> {
    use tantivy::schema::NumericOptions;
    use tantivy::{IndexSettings, IndexSortByField, Order};
    let ty = a[0].as_str();
    let (x, y): (i128, i128) = (a[1].parse().unwrap(), a[2].parse().unwrap());
    let mut sb = Schema::builder();
    let opts = NumericOptions::default().set_fast().set_indexed();
    let f = if ty == "i64" { sb.add_i64_field("v", opts) } else { sb.add_u64_field("v", opts) };
    let index = Index::builder()
        .schema(sb.build())
        .settings(IndexSettings {
            sort_by_field: Some(IndexSortByField { field: "v".to_string(), order: Order::Asc }),
            ..Default::default()
        })
        .create_in_ram()?;
    let mut w: IndexWriter = index.writer_with_num_threads(1, 50_000_000)?;
    for v in [x, y, y, x] {
        let mut d = tantivy::TantivyDocument::default();
        if ty == "i64" {
            d.add_i64(f, v as i64);
        } else {
            d.add_u64(f, v as u64);
        }
        w.add_document(d)?;
    }
    w.commit()?;
    let searcher = index.reader()?.searcher();
    let seg = searcher.segment_reader(0);
    let mut vals: Vec<i128> = Vec::new();
    if ty == "i64" {
        let col = seg.fast_fields().i64("v")?;
        for d in 0..seg.max_doc() {
            vals.push(col.first(d).unwrap() as i128);
        }
    } else {
        let col = seg.fast_fields().u64("v")?;
        for d in 0..seg.max_doc() {
            vals.push(col.first(d).unwrap() as i128);
        }
    }
    Ok(searcher.segment_readers().len() == 1 && vals.len() == 4 && vals.windows(2).all(|p| p[0] <= p[1]))
}

mod probe_bg_merge;
mod probe_lock_during_merges;
mod probe_revalidation;
mod probe_optional_threshold;
mod probe_run_groups;
mod probe_temp_store;
mod probe_two_field_conjunction;
mod probe_lock_race;
mod probe_union_freqless;
mod probe_update_merge;

fn main() -> tantivy::Result<()> {
    let args: Vec<String> = std::env::args().collect();
    // `--probe <name>`: heavier single-purpose scenarios, run on demand only
    if let Some(p) = args.iter().position(|a| a == "--probe") {
        let name = args[p + 1].as_str();
        let ok = match name {
            "update_survives_uncommitted_merge" => {
                std::panic::catch_unwind(|| matches!(probe_update_merge::run(), Ok(()))).unwrap_or(false)
            }
            "single_writer_under_racing_creations" => {
                std::panic::catch_unwind(|| matches!(probe_lock_race::run(), Ok(()))).unwrap_or(false)
            }
            "optional_index_block_at_dense_threshold" => {
                std::panic::catch_unwind(|| matches!(probe_optional_threshold::run(), Ok(()))).unwrap_or(false)
            }
            "no_temp_docstore_after_gc_on_sorted_index" => {
                std::panic::catch_unwind(|| matches!(probe_temp_store::run(), Ok(()))).unwrap_or(false)
            }
            "two_field_conjunction_scores" => {
                std::panic::catch_unwind(|| matches!(probe_two_field_conjunction::run(), Ok(()))).unwrap_or(false)
            }
            "run_groups_survive_memory_cut" => {
                std::panic::catch_unwind(|| matches!(probe_run_groups::run(), Ok(()))).unwrap_or(false)
            }
            "lock_held_while_waiting_for_merges" => {
                std::panic::catch_unwind(|| matches!(probe_lock_during_merges::run(), Ok(()))).unwrap_or(false)
            }
            "revalidation_detects_later_corruption" => {
                std::panic::catch_unwind(|| matches!(probe_revalidation::run(), Ok(()))).unwrap_or(false)
            }
            "topk_union_with_freqless_term" => {
                std::panic::catch_unwind(|| matches!(probe_union_freqless::run(), Ok(()))).unwrap_or(false)
            }
            "uncommitted_delete_not_published_by_background_merge" => {
                std::panic::catch_unwind(|| matches!(probe_bg_merge::run(), Ok(()))).unwrap_or(false)
            }
            _ => false,
        };
        println!("{{\"n\":0,\"api\":\"{}\",\"ok\":{}}}", name, ok);
        return Ok(());
    }
    if let Some(p) = args.iter().position(|a| a == "--sorted-segment") {
        let r = sorted_segment_probe(&args[p + 1..]);
        println!("{{\"n\":0,\"api\":\"sorted_segment\",\"ok\":{}}}", matches!(r, Ok(true)));
        return Ok(());
    }
    if let Some(p) = args.iter().position(|a| a == "--json-range") {
        let r = json_range_probe(&args[p + 1..]);
        println!("{{\"n\":0,\"api\":\"json_range\",\"ok\":{}}}", matches!(r, Ok(true)));
        return Ok(());
    }
    let mut fail_op = None;
    let mut fail_occ = 0usize;
    let mut i = 1;
    while i < args.len() {
        if args[i] == "--fail" {
            let (o, k) = args[i + 1].split_once(':').expect("--fail op:occurrence");
            fail_op = Some(o.to_string());
            fail_occ = k.parse().unwrap();
            i += 1;
        }
        i += 1;
    }
    let rec = Rec {
        inner: RamDirectory::create(),
        log: Arc::new(Mutex::new(Vec::new())),
        counter: Arc::new(AtomicUsize::new(0)),
        fail_op,
        fail_occ,
        seen: Arc::new(Mutex::new(Default::default())),
    };
    let mut sb = Schema::builder();
    let text = sb.add_text_field("text", TEXT | STORED);
    let schema = sb.build();
    let r = (|| -> tantivy::Result<()> {
        let index = Index::create(rec.clone(), schema.clone(), Default::default())?;
        rec.api("create", true);
        let mut writer: IndexWriter = index.writer_with_num_threads(1, 20_000_000)?;
        rec.api("writer", true);
        writer.add_document(doc!(text => "a b c"))?;
        writer.add_document(doc!(text => "a d"))?;
        let c1 = writer.commit();
        rec.api("commit1", c1.is_ok());
        let reader = index.reader_builder().reload_policy(ReloadPolicy::Manual).try_into()?;
        rec.api("reader", true);
        writer.add_document(doc!(text => "e f"))?;
        writer.delete_term(Term::from_field_text(text, "d"));
        let c2 = writer.commit();
        rec.api("commit2", c2.is_ok());
        let rl = reader.reload();
        rec.api("reload", rl.is_ok());
        // a commit that only deletes (new .del file for an existing segment, no new segment)
        writer.delete_term(Term::from_field_text(text, "f"));
        let c3 = writer.commit();
        rec.api("commit3_deletes_only", c3.is_ok());
        let rl = reader.reload();
        rec.api("reload", rl.is_ok());
        let n = reader.searcher().num_docs();
        rec.api(&format!("num_docs={}", n), true);
        let ids = index.searchable_segment_ids()?;
        if ids.len() >= 2 {
            let m = writer.merge(&ids).wait();
            rec.api("merge", m.is_ok());
        }
        let gc = writer.garbage_collect_files().wait();
        rec.api("gc", gc.is_ok());
        let rb = writer.rollback();
        rec.api("rollback", rb.is_ok());
        let w = writer.wait_merging_threads();
        rec.api("wait_merging_threads", w.is_ok());
        // the index must re-open and accept a new writer
        let index2 = Index::open(rec.clone());
        rec.api("reopen", index2.is_ok());
        if let Ok(index2) = index2 {
            let w2: tantivy::Result<IndexWriter> = index2.writer_with_num_threads(1, 20_000_000);
            rec.api("writer2", w2.is_ok());
            let r2 = index2.reader();
            rec.api("reader2", r2.is_ok());
            if let Ok(r2) = r2 {
                rec.api(&format!("num_docs2={}", r2.searcher().num_docs()), true);
            }
        }
        Ok(())
    })();
    rec.api("scenario", r.is_ok());
    // second scenario (no storage interest): top-1 by score must equal the head of the exhaustive
    // ranking for a single-term query on a Basic-indexed (no term frequencies) multi-valued field
    let r2 = (|| -> tantivy::Result<bool> {
        let mut sb = Schema::builder();
        let tag = sb.add_text_field("tag", STRING);
        let index = Index::create_in_ram(sb.build());
        let mut w: IndexWriter = index.writer_with_num_threads(1, 50_000_000)?;
        for d in 0..400u32 {
            let mut doc = tantivy::TantivyDocument::default();
            doc.add_text(tag, "a");
            if d != 300 {
                for i in 0..5 {
                    doc.add_text(tag, format!("v{i}"));
                }
            }
            w.add_document(doc)?;
        }
        w.commit()?;
        let searcher = index.reader()?.searcher();
        let q = TermQuery::new(Term::from_field_text(tag, "a"), IndexRecordOption::Basic);
        let all = searcher.search(&q, &TopDocs::with_limit(1000).order_by_score())?;
        let top1 = searcher.search(&q, &TopDocs::with_limit(1).order_by_score())?;
        Ok(all[0].1 == top1[0].1)
    })();
    rec.api("top1_basic_multivalued", matches!(r2, Ok(true)));
    // third scenario: ties on the sort key across three segments must be broken by ascending
    // document address whatever order each segment hands its local top-K over in
    // (limit 4; segments: 6 docs with 2 hits of score 0.5; 5 docs with scores 9,9,9,0.5; 4 docs all 1.0)
    let r3 = (|| -> tantivy::Result<bool> {
        let mut sb = Schema::builder();
        let tag = sb.add_text_field("tag", STRING);
        let index = Index::create_in_ram(sb.build());
        let mut w: IndexWriter = index.writer_with_num_threads(1, 50_000_000)?;
        w.set_merge_policy(Box::new(tantivy::indexer::NoMergePolicy));
        for t in ["x", "x", "x", "z", "w"] {
            w.add_document(doc!(tag => t))?;
        }
        w.commit()?;
        for t in ["z", "z", "w", "w", "w", "w"] {
            w.add_document(doc!(tag => t))?;
        }
        w.commit()?;
        for t in ["y", "y", "y", "y"] {
            w.add_document(doc!(tag => t))?;
        }
        w.commit()?;
        let searcher = index.reader()?.searcher();
        let c = |t: &str, s: f32| -> (Occur, Box<dyn Query>) {
            (
                Occur::Should,
                Box::new(ConstScoreQuery::new(
                    Box::new(TermQuery::new(Term::from_field_text(tag, t), IndexRecordOption::Basic)),
                    s,
                )),
            )
        };
        let q = BooleanQuery::new(vec![c("x", 9.0), c("y", 1.0), c("z", 0.5)]);
        let all = searcher.search(&q, &TopDocs::with_limit(100).order_by_score())?;
        let top4 = searcher.search(&q, &TopDocs::with_limit(4).order_by_score())?;
        Ok(searcher.segment_readers().len() == 3 && all[..4] == top4[..])
    })();
    rec.api("topk_tie_break_multi_segment", matches!(r3, Ok(true)));
    // fourth scenario: the score read at a document must not depend on how the scorer got there.
    // `a OR b`, a in docs 0..=70, b in docs {5000, 5003} (two 4096-id windows of the buffered
    // union): one fill_buffer (64 ids), then advance up to 5003; compared with a fresh scorer that
    // seeks to 5003.
    let r4 = (|| -> tantivy::Result<bool> {
        use tantivy::query::EnableScoring;
        use tantivy::{DocSet, COLLECT_BLOCK_BUFFER_LEN, TERMINATED};
        let mut sb = Schema::builder();
        let f = sb.add_text_field("f", tantivy::schema::TEXT);
        let index = Index::create_in_ram(sb.build());
        let mut w: IndexWriter = index.writer_with_num_threads(1, 50_000_000)?;
        for d in 0..6000u32 {
            let mut text = String::from("z");
            if d <= 70 {
                text.push_str(" a");
            }
            if d == 5000 || d == 5003 {
                text.push_str(" b");
            }
            w.add_document(doc!(f => text))?;
        }
        w.commit()?;
        let searcher = index.reader()?.searcher();
        let t = |s: &str| -> (Occur, Box<dyn Query>) {
            (Occur::Should, Box::new(TermQuery::new(Term::from_field_text(f, s), IndexRecordOption::WithFreqs)))
        };
        let q = BooleanQuery::new(vec![t("a"), t("b")]);
        let weight = q.weight(EnableScoring::enabled_from_searcher(&searcher))?;
        let seg = searcher.segment_reader(0);
        let mut fresh = weight.scorer(seg, 1.0)?;
        if fresh.seek(5003) != 5003 {
            return Ok(false);
        }
        let expected = fresh.score();
        let mut s = weight.scorer(seg, 1.0)?;
        let mut buf = [0u32; COLLECT_BLOCK_BUFFER_LEN];
        if s.fill_buffer(&mut buf) != COLLECT_BLOCK_BUFFER_LEN {
            return Ok(false);
        }
        // the scorer is left on a document: its score must be that document's score
        let here = s.doc();
        let mut fresh2 = weight.scorer(seg, 1.0)?;
        let here_ok = fresh2.seek(here) == here && fresh2.score() == s.score();
        let mut d = s.doc();
        while d < 5003 && d != TERMINATED {
            d = s.advance();
        }
        Ok(searcher.segment_readers().len() == 1 && d == 5003 && s.score() == expected && here_ok)
    })();
    rec.api("union_score_after_fill_buffer", matches!(r4, Ok(true)));
    // fifth scenario: a commit whose deletes empty a whole segment; after garbage collection the
    // managed files are exactly those of the searchable segments plus meta.json (no orphan)
    let r5 = (|| -> tantivy::Result<bool> {
        let mut sb = Schema::builder();
        let tag = sb.add_text_field("tag", STRING);
        let index = Index::create_in_ram(sb.build());
        let mut w: IndexWriter = index.writer_with_num_threads(1, 50_000_000)?;
        w.set_merge_policy(Box::new(tantivy::indexer::NoMergePolicy));
        for _ in 0..3 {
            w.add_document(doc!(tag => "a"))?;
        }
        w.commit()?;
        for _ in 0..3 {
            w.add_document(doc!(tag => "b"))?;
        }
        w.commit()?;
        w.delete_term(Term::from_field_text(tag, "a"));
        w.commit()?;
        w.garbage_collect_files().wait()?;
        let mut expected: std::collections::HashSet<std::path::PathBuf> = index
            .searchable_segment_metas()?
            .iter()
            .flat_map(|m| m.list_files())
            .collect();
        expected.insert(std::path::PathBuf::from("meta.json"));
        let managed = index.directory().list_managed_files();
        Ok(index.searchable_segment_metas()?.len() == 1 && managed.iter().all(|p| expected.contains(p)))
    })();
    rec.api("no_orphan_after_emptied_segment", matches!(r5, Ok(true)));
    // sixth scenario: merging segments without deletes keeps the exact token count of a field
    // (BM25's average field length must not depend on how the documents were split)
    let r6 = (|| -> tantivy::Result<bool> {
        let mut sb = Schema::builder();
        let f = sb.add_text_field("f", TEXT);
        let index = Index::create_in_ram(sb.build());
        let mut w: IndexWriter = index.writer_with_num_threads(1, 50_000_000)?;
        w.set_merge_policy(Box::new(tantivy::indexer::NoMergePolicy));
        let mut total = 0u64;
        for n in [45usize, 41, 333] {
            w.add_document(doc!(f => vec!["w"; n].join(" ")))?;
            w.add_document(doc!(f => "w w w"))?;
            total += n as u64 + 3;
            w.commit()?;
        }
        let ids = index.searchable_segment_ids()?;
        w.merge(&ids).wait()?;
        let searcher = index.reader()?.searcher();
        let inv = searcher.segment_reader(0).inverted_index(f)?;
        Ok(searcher.segment_readers().len() == 1 && inv.total_num_tokens() == total)
    })();
    rec.api("merge_keeps_exact_token_count", matches!(r6, Ok(true)));
    for l in rec.log.lock().unwrap().iter() {
        println!("{}", l);
    }
    Ok(())
}
