// Scenario contributed by a mutation sub-agent (seed C18d), public API only: while the first writer is
// inside wait_merging_threads() with a merge still in flight, every attempt to open a second writer
// from another Index instance must fail with LockBusy.
#![allow(dead_code)]
// At most one `IndexWriter` per index directory, at any time.
// 
// `IndexWriter::wait_merging_threads` consumes the writer, but the writer is still
// there (and its merge threads are still writing to the directory and will still
// publish a new `meta.json`) until the call returns. For that whole duration every
// attempt to open another writer, from another `Index` instance / another thread,
// has to fail with a lock error. The lock is released once the call has returned.
// 
// The test uses a `Directory` wrapping a `RamDirectory`, in which the creation of
// regular (segment) files can be suspended, in order to keep a merge "in flight"
// for as long as we need.

use std::io;
use std::path::Path;
use std::sync::{Arc, Condvar, Mutex};
use std::time::{Duration, Instant};

use tantivy::directory::error::{DeleteError, LockError, OpenReadError, OpenWriteError};
use tantivy::directory::{
    Directory, FileHandle, RamDirectory, WatchCallback, WatchHandle, WritePtr,
};
use tantivy::merge_policy::NoMergePolicy;
use tantivy::schema::{Schema, TEXT};
use tantivy::{doc, Index, IndexSettings, IndexWriter, TantivyError};

const BUDGET: usize = 20_000_000;

#[derive(Default)]
struct GateState {
    closed: bool,
    num_waiting: usize,
}

#[derive(Default)]
struct Gate {
    state: Mutex<GateState>,
    cond: Condvar,
}

impl Gate {
    fn close(&self) {
        self.state.lock().unwrap().closed = true;
    }

    fn open(&self) {
        self.state.lock().unwrap().closed = false;
        self.cond.notify_all();
    }

    /// Blocks for as long as the gate is closed.
    fn pass(&self) {
        let mut state = self.state.lock().unwrap();
        if !state.closed {
            return;
        }
        state.num_waiting += 1;
        self.cond.notify_all();
        while state.closed {
            state = self.cond.wait(state).unwrap();
        }
        state.num_waiting -= 1;
    }

    /// Waits until some thread is blocked on the gate.
    fn wait_for_blocked_thread(&self, timeout: Duration) -> bool {
        let deadline = Instant::now() + timeout;
        let mut state = self.state.lock().unwrap();
        while state.num_waiting == 0 {
            let now = Instant::now();
            if now >= deadline {
                return false;
            }
            state = self.cond.wait_timeout(state, deadline - now).unwrap().0;
        }
        true
    }
}

/// A `RamDirectory` in which the creation of regular files (all files but the
/// dot-files, i.e. but the lock files) can be suspended.
#[derive(Clone)]
struct GatedDirectory {
    inner: RamDirectory,
    gate: Arc<Gate>,
}

impl std::fmt::Debug for GatedDirectory {
    fn fmt(&self, f: &mut std::fmt::Formatter<'_>) -> std::fmt::Result {
        write!(f, "GatedDirectory")
    }
}

impl Directory for GatedDirectory {
    fn get_file_handle(&self, path: &Path) -> Result<Arc<dyn FileHandle>, OpenReadError> {
        self.inner.get_file_handle(path)
    }

    fn delete(&self, path: &Path) -> Result<(), DeleteError> {
        self.inner.delete(path)
    }

    fn exists(&self, path: &Path) -> Result<bool, OpenReadError> {
        self.inner.exists(path)
    }

    fn open_write(&self, path: &Path) -> Result<WritePtr, OpenWriteError> {
        let is_dot_file = path
            .to_str()
            .map(|path_str| path_str.starts_with('.'))
            .unwrap_or(false);
        if !is_dot_file {
            self.gate.pass();
        }
        self.inner.open_write(path)
    }

    fn atomic_read(&self, path: &Path) -> Result<Vec<u8>, OpenReadError> {
        self.inner.atomic_read(path)
    }

    fn atomic_write(&self, path: &Path, data: &[u8]) -> io::Result<()> {
        self.inner.atomic_write(path, data)
    }

    fn sync_directory(&self) -> io::Result<()> {
        self.inner.sync_directory()
    }

    fn watch(&self, watch_callback: WatchCallback) -> tantivy::Result<WatchHandle> {
        self.inner.watch(watch_callback)
    }
}

pub fn run() -> tantivy::Result<()> {
    let gate = Arc::new(Gate::default());
    let directory = GatedDirectory {
        inner: RamDirectory::create(),
        gate: gate.clone(),
    };

    let mut schema_builder = Schema::builder();
    let text = schema_builder.add_text_field("text", TEXT);
    let schema = schema_builder.build();

    let index = Index::create(directory.clone(), schema, IndexSettings::default())?;
    // A second `Index` instance over the same directory.
    let other_index = Index::open(directory.clone())?;

    let mut writer: IndexWriter = index.writer_with_num_threads(1, BUDGET)?;
    writer.set_merge_policy(Box::new(NoMergePolicy));
    writer.add_document(doc!(text => "hello"))?;
    writer.commit()?;
    writer.add_document(doc!(text => "happy"))?;
    writer.commit()?;
    let segment_ids = index.searchable_segment_ids()?;
    assert_eq!(segment_ids.len(), 2);

    // Sanity check: the writer is alive, nobody else can open a writer.
    assert!(matches!(
        other_index.writer_with_num_threads::<tantivy::TantivyDocument>(1, BUDGET),
        Err(TantivyError::LockFailure(LockError::LockBusy, _))
    ));

    // Start a merge and keep it in flight: the merge thread gets suspended as it
    // creates the first file of the merged segment.
    gate.close();
    let _merge_future = writer.merge(&segment_ids);
    assert!(
        gate.wait_for_blocked_thread(Duration::from_secs(30)),
        "the merge thread never attempted to create a file"
    );

    let wait_merging_threads_handle = std::thread::spawn(move || writer.wait_merging_threads());

    // The first writer is waiting for its merge. For as long as it does, opening
    // a second writer has to fail.
    let mut violation: Option<String> = None;
    let deadline = Instant::now() + Duration::from_millis(1_500);
    while Instant::now() < deadline {
        assert!(
            !wait_merging_threads_handle.is_finished(),
            "wait_merging_threads returned while a merge was still in flight"
        );
        match other_index.writer_with_num_threads::<tantivy::TantivyDocument>(1, BUDGET) {
            Err(TantivyError::LockFailure(LockError::LockBusy, _)) => {}
            Err(other_err) => {
                violation = Some(format!("expected a LockBusy failure, got {other_err:?}"));
                break;
            }
            Ok(_second_writer) => {
                violation = Some(
                    "a second IndexWriter was opened while the first one was still waiting for \
                     its merging threads"
                        .to_string(),
                );
                break;
            }
        }
        std::thread::sleep(Duration::from_millis(20));
    }

    // Let the merge proceed, whatever happened.
    gate.open();
    wait_merging_threads_handle
        .join()
        .expect("wait_merging_threads panicked")?;

    if let Some(violation) = violation {
        panic!("{violation}");
    }

    // The merge was carried out...
    assert_eq!(index.searchable_segment_ids()?.len(), 1);
    // ... and now that the first writer has been consumed, the lock is free again.
    let mut next_writer: IndexWriter = other_index.writer_with_num_threads(1, BUDGET)?;
    next_writer.add_document(doc!(text => "world"))?;
    next_writer.commit()?;
    assert_eq!(index.reader()?.searcher().num_docs(), 3);
    Ok(())
}
