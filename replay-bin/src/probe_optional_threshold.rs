// Scenario contributed by a mutation sub-agent (seed C08c), public API only: an optional / multivalued
// fast field with exactly 5120 values inside one 65536-row block (where the sparse and the dense block
// encodings have the same size) must read back exactly.
#![allow(dead_code)]
// Demo for seed C08c.
// 
// An optional (not every document has a value) fast field must return exactly the value that
// was indexed for the documents that have one, and nothing for the others.
// 
// Shape needed: inside one 65_536-document block of a segment, *exactly* 5_120 documents carry
// a value for the field (the tie point where the sparse and the dense encoding of the
// optional index have the same size). 5_119 or 5_121 documents are fine.

use tantivy::collector::Count;
use tantivy::query::RangeQuery;
use tantivy::schema::{Schema, FAST, INDEXED};
use tantivy::{Index, IndexWriter, TantivyDocument, Term};

const NUM_DOCS: u64 = 12_000;

/// Builds a single segment of `NUM_DOCS` docs. `id` is set on every doc, `score` and `tags`
/// only on the first `num_docs_with_value` even docs.
fn build_index(num_docs_with_value: u64) -> Index {
    let mut schema_builder = Schema::builder();
    let id = schema_builder.add_u64_field("id", FAST | INDEXED);
    // optional single-valued column
    let score = schema_builder.add_u64_field("score", FAST | INDEXED);
    // multivalued column (its index also embeds an optional index)
    let tags = schema_builder.add_u64_field("tags", FAST);
    let schema = schema_builder.build();
    let index = Index::create_in_ram(schema);
    let mut writer: IndexWriter = index.writer_with_num_threads(1, 100_000_000).unwrap();
    let mut num_with_value = 0u64;
    for doc_id in 0..NUM_DOCS {
        let mut doc = TantivyDocument::default();
        doc.add_u64(id, doc_id);
        if doc_id % 2 == 0 && num_with_value < num_docs_with_value {
            num_with_value += 1;
            doc.add_u64(score, 1_000 + doc_id * 3);
            doc.add_u64(tags, doc_id);
            doc.add_u64(tags, doc_id + 7);
        }
        writer.add_document(doc).unwrap();
    }
    assert_eq!(num_with_value, num_docs_with_value);
    writer.commit().unwrap();
    index
}

fn check_index(num_docs_with_value: u64) {
    let index = build_index(num_docs_with_value);
    let searcher = index.reader().unwrap().searcher();
    assert_eq!(searcher.segment_readers().len(), 1, "expected one segment");
    let segment_reader = searcher.segment_reader(0);
    assert_eq!(segment_reader.max_doc() as u64, NUM_DOCS);
    let ff = segment_reader.fast_fields();
    let id_col = ff.u64("id").unwrap();
    let score_col = ff.u64("score").unwrap();
    let tags_col = ff.u64("tags").unwrap();
    assert_eq!(score_col.num_docs() as u64, NUM_DOCS);
    assert_eq!(score_col.values.num_vals() as u64, num_docs_with_value);

    let mut num_with_value = 0u64;
    for doc in 0..segment_reader.max_doc() {
        let doc_id = id_col.first(doc).unwrap();
        let has_value = doc_id % 2 == 0 && doc_id / 2 < num_docs_with_value;
        let scores: Vec<u64> = score_col.values_for_doc(doc).collect();
        let tags: Vec<u64> = tags_col.values_for_doc(doc).collect();
        if has_value {
            num_with_value += 1;
            assert_eq!(
                scores,
                vec![1_000 + doc_id * 3],
                "score of doc {doc} ({num_docs_with_value} docs with a value)"
            );
            assert_eq!(
                tags,
                vec![doc_id, doc_id + 7],
                "tags of doc {doc} ({num_docs_with_value} docs with a value)"
            );
        } else {
            assert!(
                scores.is_empty(),
                "doc {doc} has no score but the column returned {scores:?} \
                 ({num_docs_with_value} docs with a value)"
            );
            assert!(
                tags.is_empty(),
                "doc {doc} has no tags but the column returned {tags:?} \
                 ({num_docs_with_value} docs with a value)"
            );
        }
    }
    assert_eq!(num_with_value, num_docs_with_value);

    // Looking documents up by value range must agree with the values that were indexed.
    let score_field = index.schema().get_field("score").unwrap();
    let lower = 1_000 + 100 * 3;
    let upper = 1_000 + 2_000 * 3;
    let range_query = RangeQuery::new(
        std::ops::Bound::Included(Term::from_field_u64(score_field, lower)),
        std::ops::Bound::Included(Term::from_field_u64(score_field, upper)),
    );
    let count = searcher.search(&range_query, &Count).unwrap();
    // even doc ids in [100, 2000]
    let expected = (100..=2_000u64)
        .filter(|doc_id| doc_id % 2 == 0 && doc_id / 2 < num_docs_with_value)
        .count();
    assert_eq!(count, expected, "range query count");
}

fn optional_fast_field_just_below_the_dense_threshold() {
    check_index(5_119);
}

fn optional_fast_field_just_above_the_dense_threshold() {
    check_index(5_121);
}

fn optional_fast_field_exactly_at_the_dense_threshold() {
    check_index(5_120);
}

pub fn run() -> tantivy::Result<()> {
    optional_fast_field_just_below_the_dense_threshold();
    optional_fast_field_exactly_at_the_dense_threshold();
    optional_fast_field_just_above_the_dense_threshold();
    Ok(())
}
