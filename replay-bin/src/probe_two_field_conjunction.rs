// Scenario contributed by a mutation sub-agent (seed C12c), public API only: a conjunction of term
// queries over two fields, collected by TopDocs alone (block-max intersection path), scores every
// clause with the length of its own field: BM25 formula, explain() and (TopDocs, Count) agree.
#![allow(dead_code)]
// A conjunction of two scoring term clauses on two different fields: `+title:common +body:rare`.
// 
// The score of a matching document is BM25(title clause) + BM25(body clause), each evaluated on
// the statistics and on the document length of *its own field*. The same searcher must report
// that score whatever the collector (TopDocs alone, TopDocs next to another collector, any K),
// and `explain()` must agree.

use tantivy::collector::{Count, TopDocs};
use tantivy::query::{Bm25StatisticsProvider, BooleanQuery, Occur, Query, TermQuery};
use tantivy::schema::{Field, IndexRecordOption, Schema, Value, FAST, STORED, TEXT};
use tantivy::{DocAddress, Index, IndexWriter, Score, Searcher, TantivyDocument, Term};

const K1: f32 = 1.2;
const B: f32 = 0.75;

fn bm25(doc_count: u64, doc_freq: u64, avgdl: f32, dl: u32, tf: u32) -> f32 {
    let idf = (1.0f32
        + ((doc_count - doc_freq) as f32 + 0.5f32) / (doc_freq as f32 + 0.5f32))
        .ln();
    let tf = tf as f32;
    let norm = K1 * (1.0f32 - B + B * dl as f32 / avgdl);
    idf * (1.0f32 + K1) * (tf / (tf + norm))
}

fn nearly(a: f32, b: f32) -> bool {
    (a - b).abs() <= 1e-5f32 * a.abs().max(b.abs()).max(1.0f32)
}

struct DocSpec {
    title: String,
    body: String,
}

fn count_word(text: &str, word: &str) -> u32 {
    text.split_whitespace().filter(|w| *w == word).count() as u32
}

fn num_tokens(text: &str) -> u32 {
    text.split_whitespace().count() as u32
}

/// Expected score of `+title:common +body:rare` for a doc, from the BM25 formula.
fn expected_score(searcher: &Searcher, title: Field, body: Field, doc: &DocSpec) -> f32 {
    let doc_count = searcher.total_num_docs().unwrap();
    let mut total = 0.0f32;
    for (field, word, text) in [(body, "rare", &doc.body), (title, "common", &doc.title)] {
        let doc_freq = searcher
            .doc_freq(&Term::from_field_text(field, word))
            .unwrap();
        let avgdl = searcher.total_num_tokens(field).unwrap() as f32 / doc_count as f32;
        // All field lengths used in this test are <= 40, hence exactly representable by the
        // fieldnorm quantisation.
        total += bm25(
            doc_count,
            doc_freq,
            avgdl,
            num_tokens(text),
            count_word(text, word),
        );
    }
    total
}

pub fn run() -> tantivy::Result<()>
{
    let mut schema_builder = Schema::builder();
    let id = schema_builder.add_u64_field("id", STORED | FAST);
    let title = schema_builder.add_text_field("title", TEXT);
    let body = schema_builder.add_text_field("body", TEXT);
    let schema = schema_builder.build();
    let index = Index::create_in_ram(schema);
    let mut writer: IndexWriter = index.writer_with_num_threads(1, 50_000_000)?;

    // 30 docs. `common` is in the title of 20 of them, `rare` in the body of 6 of them, and 5
    // docs have both. Titles are short (2..=4 tokens), bodies are long (8..=37 tokens), and a
    // doc with a short title does not necessarily have a short body.
    let mut docs: Vec<DocSpec> = Vec::new();
    for i in 0..30u32 {
        let mut title_words: Vec<&str> = Vec::new();
        if i % 3 != 2 {
            title_words.push("common");
        } else {
            title_words.push("other");
        }
        for _ in 0..(1 + i % 3) {
            title_words.push("ttl");
        }
        let mut body_words: Vec<&str> = Vec::new();
        if i % 5 == 0 {
            body_words.push("rare");
            if i % 10 == 0 {
                body_words.push("rare");
            }
        }
        for _ in 0..(7 + (i * 7) % 30) {
            body_words.push("filler");
        }
        docs.push(DocSpec {
            title: title_words.join(" "),
            body: body_words.join(" "),
        });
    }
    for (doc_id, doc_spec) in docs.iter().enumerate() {
        let mut doc = TantivyDocument::default();
        doc.add_u64(id, doc_id as u64);
        doc.add_text(title, &doc_spec.title);
        doc.add_text(body, &doc_spec.body);
        writer.add_document(doc)?;
    }
    writer.commit()?;
    let searcher = index.reader()?.searcher();
    assert_eq!(searcher.segment_readers().len(), 1);

    let title_common = Term::from_field_text(title, "common");
    let body_rare = Term::from_field_text(body, "rare");
    assert_eq!(searcher.doc_freq(&title_common)?, 20);
    assert_eq!(searcher.doc_freq(&body_rare)?, 6);

    let term_query = |term: &Term| -> Box<dyn Query> {
        Box::new(TermQuery::new(term.clone(), IndexRecordOption::WithFreqs))
    };
    // Both clause orders denote the same query.
    let queries: Vec<(&str, BooleanQuery)> = vec![
        (
            "+body:rare +title:common",
            BooleanQuery::new(vec![
                (Occur::Must, term_query(&body_rare)),
                (Occur::Must, term_query(&title_common)),
            ]),
        ),
        (
            "+title:common +body:rare",
            BooleanQuery::new(vec![
                (Occur::Must, term_query(&title_common)),
                (Occur::Must, term_query(&body_rare)),
            ]),
        ),
    ];

    let doc_id_of = |addr: DocAddress| -> u64 {
        let stored: TantivyDocument = searcher.doc(addr).unwrap();
        stored.get_first(id).and_then(|v| v.as_u64()).unwrap()
    };

    for (query_str, query) in &queries {
        // Reference: TopDocs next to Count (the tuple collector drives the plain scorer).
        let (reference_hits, count) =
            searcher.search(query, &(TopDocs::with_limit(100).order_by_score(), Count))?;
        assert_eq!(count, 4);
        assert_eq!(reference_hits.len(), 4);
        let mut reference: Vec<(u64, Score)> = reference_hits
            .iter()
            .map(|(score, addr)| (doc_id_of(*addr), *score))
            .collect();
        reference.sort_by_key(|(doc_id, _)| *doc_id);
        for (doc_id, score) in &reference {
            let expected = expected_score(&searcher, title, body, &docs[*doc_id as usize]);
            assert!(
                nearly(*score, expected),
                "{query_str}: (TopDocs, Count) score {score} of doc {doc_id} is not the BM25 \
                 sum {expected}"
            );
        }

        for k in [1usize, 2, 3, 10, 100] {
            let hits: Vec<(Score, DocAddress)> =
                searcher.search(query, &TopDocs::with_limit(k).order_by_score())?;
            assert_eq!(hits.len(), k.min(4));
            for (score, addr) in hits {
                let doc_id = doc_id_of(addr);
                let expected = expected_score(&searcher, title, body, &docs[doc_id as usize]);
                let explained = query.explain(&searcher, addr)?.value();
                let (_, reference_score) = reference
                    .iter()
                    .find(|(ref_doc_id, _)| *ref_doc_id == doc_id)
                    .unwrap();
                assert!(
                    nearly(score, explained),
                    "{query_str}, K={k}, doc {doc_id}: TopDocs score {score} but explain() says \
                     {explained}"
                );
                assert!(
                    nearly(score, *reference_score),
                    "{query_str}, K={k}, doc {doc_id}: TopDocs score {score} but (TopDocs, \
                     Count) reported {reference_score}"
                );
                assert!(
                    nearly(score, expected),
                    "{query_str}, K={k}, doc {doc_id}: TopDocs score {score} is not the BM25 \
                     sum {expected}"
                );
            }
        }
    }
    Ok(())
}
