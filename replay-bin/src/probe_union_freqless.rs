// Scenario contributed by a mutation sub-agent (seed C06c), public API only: top-K of a union
// that mixes a scored TEXT term with a STRING term (no term frequencies, hence no block-max
// metadata) must equal the prefix of the exhaustive ranking.
#![allow(dead_code)]
// Demo for seed C06c.
// 
// A disjunctive query mixing a scored `TEXT` term with a `STRING` term
// (`lang:en body:rust`) must return, for `TopDocs::with_limit(K).order_by_score()`,
// exactly the K best documents of the complete (un-pruned) ranking, ties broken by ascending
// doc address, and paging with successive offsets must enumerate that ranking.
// 
// The `STRING` term is indexed without term frequencies, so its posting list carries no
// block-max metadata. It needs at least one full 128-doc block in the segment for the
// defect to manifest.

use tantivy::collector::TopDocs;
use tantivy::query::{BooleanQuery, Occur, Query, TermQuery};
use tantivy::schema::{IndexRecordOption, Schema, STRING, TEXT};
use tantivy::{doc, DocAddress, DocId, Index, IndexWriter, Score, Term};

const NUM_DOCS: usize = 1200;
const BODY_LEN: usize = 8;

/// Even docs are `lang:en` and contain `rust`, in a body of constant length. The term frequency
/// of `rust` depends on the rank `j` of the doc in the `lang:en` posting list: 1 for `j < 128`,
/// 2 for `j < 256`, 6 for `j < 384`, 3 for `j < 512` and 2 for the last 88 docs. (The posting
/// list of `lang:en` is made of 4 full blocks of 128 docs, followed by an incomplete block.)
/// Odd docs are `lang:fr` and do not contain `rust`.
fn term_freq_for_rank(rank: usize) -> usize {
    match rank / 128 {
        0 => 1,
        1 => 2,
        2 => 6,
        3 => 3,
        _ => 2,
    }
}

fn build_index() -> tantivy::Result<Index> {
    let mut schema_builder = Schema::builder();
    let lang = schema_builder.add_text_field("lang", STRING);
    let body = schema_builder.add_text_field("body", TEXT);
    let index = Index::create_in_ram(schema_builder.build());
    let mut writer: IndexWriter = index.writer_with_num_threads(1, 50_000_000)?;
    for i in 0..NUM_DOCS {
        let (lang_val, tf) = if i % 2 == 0 {
            ("en", term_freq_for_rank(i / 2))
        } else {
            ("fr", 0)
        };
        let mut tokens: Vec<&str> = Vec::with_capacity(BODY_LEN);
        tokens.extend(std::iter::repeat("rust").take(tf));
        tokens.extend(std::iter::repeat("pad").take(BODY_LEN - tf));
        writer.add_document(doc!(lang => lang_val, body => tokens.join(" ")))?;
    }
    writer.commit()?;
    Ok(index)
}

fn make_query(index: &Index) -> BooleanQuery {
    let schema = index.schema();
    let lang = schema.get_field("lang").unwrap();
    let body = schema.get_field("body").unwrap();
    let lang_query: Box<dyn Query> = Box::new(TermQuery::new(
        Term::from_field_text(lang, "en"),
        IndexRecordOption::WithFreqs,
    ));
    let body_query: Box<dyn Query> = Box::new(TermQuery::new(
        Term::from_field_text(body, "rust"),
        IndexRecordOption::WithFreqs,
    ));
    BooleanQuery::new(vec![(Occur::Should, lang_query), (Occur::Should, body_query)])
}

fn assert_same_hits(actual: &[(Score, DocAddress)], expected: &[(Score, DocAddress)], ctx: &str) {
    let actual_docs: Vec<DocAddress> = actual.iter().map(|(_, addr)| *addr).collect();
    let expected_docs: Vec<DocAddress> = expected.iter().map(|(_, addr)| *addr).collect();
    assert_eq!(actual_docs, expected_docs, "{ctx}: wrong documents");
    for ((actual_score, addr), (expected_score, _)) in actual.iter().zip(expected.iter()) {
        assert!(
            (actual_score - expected_score).abs() <= 1e-5 * expected_score.abs().max(1.0),
            "{ctx}: score of {addr:?} is {actual_score}, expected {expected_score}"
        );
    }
}

pub fn run() -> tantivy::Result<()> {
    let index = build_index()?;
    let searcher = index.reader()?.searcher();
    assert_eq!(searcher.segment_readers().len(), 1);
    let query = make_query(&index);

    // Reference ranking, computed without any dynamic pruning: a tweaked score that is the
    // identity goes through the exhaustive `for_each` code path.
    let reference: Vec<(Score, DocAddress)> = searcher.search(
        &query,
        &TopDocs::with_limit(NUM_DOCS)
            .tweak_score(|_segment_reader: &tantivy::SegmentReader| {
                |_doc: DocId, score: Score| score
            }),
    )?;
    assert_eq!(reference.len(), NUM_DOCS / 2);
    // Sanity check on the reference itself: sorted by decreasing score, ties by address.
    for pair in reference.windows(2) {
        assert!(
            pair[0].0 > pair[1].0 || (pair[0].0 == pair[1].0 && pair[0].1 < pair[1].1),
            "reference ranking is not sorted: {pair:?}"
        );
    }
    // The best documents are the ones with the highest term frequency (6), i.e. the 128 docs
    // starting at doc 512; they all score strictly higher than every other doc.
    assert_eq!(reference[0].1, DocAddress::new(0, 512));
    assert_eq!(reference[127].1, DocAddress::new(0, 766));
    assert!(reference[127].0 > reference[128].0);

    // Top-K by score for a limit that is larger than the number of matches: nothing can be
    // pruned.
    let all_by_score = searcher.search(&query, &TopDocs::with_limit(NUM_DOCS).order_by_score())?;
    assert_same_hits(&all_by_score, &reference, "limit >= number of matches");

    // Top-K for small K: must be the first K entries of the complete ranking.
    for k in [1usize, 3, 10, 50] {
        let top_k = searcher.search(&query, &TopDocs::with_limit(k).order_by_score())?;
        assert_same_hits(&top_k, &reference[..k], &format!("top-{k}"));
    }

    // Paging: successive offsets enumerate the complete ranking, every match exactly once.
    let page_len = 7usize;
    let mut paged: Vec<(Score, DocAddress)> = Vec::new();
    let mut offset = 0usize;
    loop {
        let page = searcher.search(
            &query,
            &TopDocs::with_limit(page_len)
                .and_offset(offset)
                .order_by_score(),
        )?;
        if page.is_empty() {
            break;
        }
        offset += page.len();
        paged.extend(page);
        if offset >= 70 {
            break;
        }
    }
    assert_same_hits(&paged, &reference[..paged.len()], "paging");
    Ok(())
}
