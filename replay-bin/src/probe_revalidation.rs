// Scenario contributed by a mutation sub-agent (seed C20d), public API only: a bit flipped in a segment
// file after a first successful validate_checksum() is reported by the next validation on the same handle.
#![allow(dead_code)]
// Checksum validation must report a segment file whose body was altered on disk,
// regardless of what was validated earlier with the same `Index` handle.

use std::collections::HashSet;
use std::fs::{self, OpenOptions};
use std::io::{Read, Seek, SeekFrom, Write};
use std::path::PathBuf;

use tantivy::schema::{Schema, STORED, TEXT};
use tantivy::{doc, Index, IndexWriter};

struct ScratchDir(PathBuf);

impl ScratchDir {
    fn new(name: &str) -> ScratchDir {
        let path = std::env::temp_dir().join(format!(
            "tantivy-seed-demo-{}-{}",
            name,
            std::process::id()
        ));
        let _ = fs::remove_dir_all(&path);
        fs::create_dir_all(&path).unwrap();
        ScratchDir(path)
    }
}

impl Drop for ScratchDir {
    fn drop(&mut self) {
        let _ = fs::remove_dir_all(&self.0);
    }
}

fn build_index(dir: &ScratchDir) -> tantivy::Result<Index> {
    let mut schema_builder = Schema::builder();
    let body = schema_builder.add_text_field("body", TEXT | STORED);
    let index = Index::create_in_dir(&dir.0, schema_builder.build())?;
    let mut writer: IndexWriter = index.writer_with_num_threads(1, 15_000_000)?;
    for i in 0..200 {
        writer.add_document(doc!(body => format!("hello happy tax payer number {i}")))?;
    }
    writer.commit()?;
    writer.wait_merging_threads()?;
    Ok(index)
}

/// Picks the biggest file of the (single) segment and flips one bit of its first byte,
/// which belongs to the body (the footer sits at the end of the file).
fn flip_one_body_bit(index: &Index, dir: &ScratchDir) -> tantivy::Result<PathBuf> {
    let segment_metas = index.searchable_segment_metas()?;
    assert_eq!(segment_metas.len(), 1);
    let victim: PathBuf = segment_metas[0]
        .list_files()
        .into_iter()
        .filter(|path| dir.0.join(path).exists())
        .max_by_key(|path| fs::metadata(dir.0.join(path)).unwrap().len())
        .unwrap();
    let full_path = dir.0.join(&victim);
    let len_before = fs::metadata(&full_path).unwrap().len();
    assert!(len_before > 200, "the file should have a non trivial body");
    let mut file = OpenOptions::new()
        .read(true)
        .write(true)
        .open(&full_path)
        .unwrap();
    let mut first_byte = [0u8; 1];
    file.read_exact(&mut first_byte).unwrap();
    first_byte[0] ^= 0b0001_0000;
    file.seek(SeekFrom::Start(0)).unwrap();
    file.write_all(&first_byte).unwrap();
    file.sync_all().unwrap();
    drop(file);
    assert_eq!(fs::metadata(&full_path).unwrap().len(), len_before);
    Ok(victim)
}

/// Control: corruption happening before the first validation is detected.
fn bit_flip_is_detected_by_first_validation() -> tantivy::Result<()> {
    let dir = ScratchDir::new("first");
    let index = build_index(&dir)?;
    let victim = flip_one_body_bit(&index, &dir)?;
    let damaged = index.validate_checksum()?;
    let expected: HashSet<PathBuf> = [victim].into_iter().collect();
    assert_eq!(damaged, expected);
    Ok(())
}

/// A bit flip that happens after the index was validated once (the periodic
/// health-check scenario) has to be reported by the next validation too.
fn bit_flip_is_detected_after_an_earlier_successful_validation() -> tantivy::Result<()> {
    let dir = ScratchDir::new("second");
    let index = build_index(&dir)?;
    assert!(index.validate_checksum()?.is_empty());

    let victim = flip_one_body_bit(&index, &dir)?;

    let damaged = index.validate_checksum()?;
    let expected: HashSet<PathBuf> = [victim].into_iter().collect();
    assert_eq!(
        damaged, expected,
        "validate_checksum missed a bit flip in a segment file"
    );

    // A freshly opened index sees the same thing.
    let reopened = Index::open_in_dir(&dir.0)?;
    assert_eq!(reopened.validate_checksum()?, expected);
    Ok(())
}

pub fn run() -> tantivy::Result<()> {
    bit_flip_is_detected_by_first_validation()?;
    bit_flip_is_detected_after_an_earlier_successful_validation()
}
