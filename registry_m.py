"""mirproto (Engine M) obligations: ordering / fault / lock-window properties on the real MIR."""
from obligations import M

I = r"<impl at [^>]*>"
SU = r"^indexer::segment_updater::" + I + "::"
DIR = r"Directory>::"          # any `<X as Directory>::method` call (dyn or concrete)

EV_STORAGE = {
    "create_file": {"call": r"index::segment::Segment::open_write$|" + DIR + r"open_write$"},
    "sync": {"call": DIR + r"sync_directory$"},
    "meta_write": {"call": DIR + r"atomic_write$", "arg": r"META_FILEPATH"},
    "ret": {"ret": True},
}


def ev(**extra):
    d = dict(EV_STORAGE)
    d.update(extra)
    return d


# =============================================================================================
# C01  commit is atomic and durable
# =============================================================================================
M("C01", "M01-1-save_metas", dict(
    root=r"^indexer::segment_updater::save_metas$", depth=1, unroll=2, inline=[],
    native=[("between", "atomic_write:meta.json", "sync_directory"), ("fault", "sync_directory", ["atomic_write:meta.json"])],
    events=ev(),
    checks=[("precedes_ok", "sync", "meta_write"),
            ("not_after_fail", "sync", "meta_write"),
            ("err_propagates", "sync"), ("err_propagates", "meta_write")]),
  title="save_metas: meta.json is only replaced after a successful directory sync; errors reach the caller",
  functions=["indexer::segment_updater::save_metas"], bounds="no inlining needed; unroll 2")

M("C01", "M01-1-commit-task", dict(
    root=SU + r"schedule_commit::\{closure#0\}$", depth=3, unroll=2,
    inline=[r"SegmentUpdater::save_metas$", r"segment_updater::save_metas$"],
    native=[("between", "atomic_write:meta.json", "sync_directory"), ("fault", "sync_directory", ["atomic_write:meta.json"])],
    events=ev(purge={"call": r"SegmentUpdater::purge_deletes$", "even_inlined": True},
              mgr_commit={"call": r"SegmentManager::commit$"},
              save={"call": r"SegmentUpdater::save_metas$", "even_inlined": True},
              gc={"call": r"segment_updater::garbage_collect_files$"}),
    absent_ok_events=["create_file"],
    checks=[("precedes_ok", "sync", "meta_write"),
            # crash right after the meta.json replace: every file created earlier on the path (new
            # .del files written by purge_deletes -> advance_deletes) has had a directory sync since
            ("precedes_ok", "sync", "meta_write", ["create_file"]),
            ("precedes_ok", "purge", "meta_write"),
            ("precedes_ok", "mgr_commit", "meta_write"),
            ("precedes_ok", "save", "gc"),
            ("not_after_fail", "purge", "meta_write"),
            ("not_after_fail", "purge", "mgr_commit"),
            ("err_propagates", "purge"), ("err_propagates", "sync"), ("err_propagates", "meta_write")]),
  title="commit task: purge_deletes -> SegmentManager::commit -> (sync, meta.json) -> GC; a failed step stops the task before meta.json and is returned",
  functions=["schedule_commit::{closure#0}", "SegmentUpdater::save_metas", "save_metas"],
  bounds="inline depth 3, unroll 2")

M("C01", "M01-3-end_merge", dict(
    root=SU + r"end_merge::\{closure#1\}$", depth=3, unroll=2,
    inline=[r"SegmentUpdater::save_metas$", r"segment_updater::save_metas$"],
    native=[("between", "atomic_write:meta.json", "sync_directory"), ("fault", "sync_directory", ["atomic_write:meta.json"])],
    
    events=ev(adv={"call": r"index_writer::advance_deletes$", "even_inlined": True},
              mgr_end={"call": r"SegmentManager::end_merge$"},
              gc={"call": r"segment_updater::garbage_collect_files$"}),
    absent_ok_events=["create_file"],
    checks=[("precedes_ok", "sync", "meta_write"),
            ("precedes_ok", "sync", "meta_write", ["create_file"]),
            ("precedes_ok", "mgr_end", "meta_write"),
            ("precedes_ok", "mgr_end", "gc"),
            ("not_after_fail", "adv", "mgr_end"),
            ("not_after_fail", "adv", "meta_write"),
            ("not_after_fail", "mgr_end", "meta_write"),
            ("err_propagates", "adv"), ("err_propagates", "mgr_end"), ("err_propagates", "meta_write")]),
  title="merge publication: reconcile deletes -> SegmentManager::end_merge -> save_metas -> GC; failures stop before publication",
  functions=["end_merge::{closure#1}", "SegmentUpdater::save_metas", "save_metas"], bounds="inline depth 3, unroll 2")

M("C01", "M01-4-advance_deletes", dict(
    root=r"^indexer::index_writer::advance_deletes$", depth=1, unroll=2, inline=[],
    events={"open_del": {"call": r"index::segment::Segment::open_write$", "arg": r"SegmentComponent::Delete"},
            "write_bits": {"call": r"alive_bitset::write_alive_bitset"},
            "terminate": {"call": r"TerminatingWrite>::terminate$"},
            "set_meta": {"call": r"SegmentEntry::set_meta$"},
            "with_meta": {"call": r"Segment::with_delete_meta$", "arg": r"dbg:target_opstamp", "argn": 2},
            "open_reader": {"call": r"SegmentReader::open$"},
            "compute": {"call": r"index_writer::compute_deleted_bitset$"},
            "ret": {"ret": True}},
    checks=[("requires_between", "open_del", "terminate", "set_meta"),
            ("precedes_ok", "write_bits", "terminate"),
            ("precedes", "with_meta", "open_del"),
            ("precedes_ok", "compute", "open_del"),
            ("not_after_fail", "write_bits", "set_meta"), ("not_after_fail", "terminate", "set_meta"),
            ("not_after_fail", "compute", "set_meta"),
            ("err_propagates", "open_del"), ("err_propagates", "write_bits"), ("err_propagates", "terminate"),
            ("err_propagates", "open_reader"), ("err_propagates", "compute")]),
  title="advance_deletes: a new .del file (named by target_opstamp) is written and terminated before the entry's meta references it; every failure is returned",
  functions=["indexer::index_writer::advance_deletes"], bounds="unroll 2")

M("C01", "M01-6-register-before-create", dict(
    root=r"^directory::managed_directory::" + I + r"::open_write$", depth=2, unroll=2,
    inline=[r"ManagedDirectory::register_file_as_managed$"],
    events={"register": {"call": r"ManagedDirectory::register_file_as_managed$", "even_inlined": True},
            "save_managed": {"call": r"managed_directory::save_managed_paths$"},
            "create": {"call": r"dyn directory::directory::Directory as directory::directory::Directory>::open_write$"},
            "ret": {"ret": True}},
    checks=[("precedes_ok", "register", "create"), ("not_after_fail", "register", "create"),
            ("not_after_fail", "save_managed", "create"),
            ("err_propagates", "register"), ("err_propagates", "create")]),
  title="ManagedDirectory::open_write: the file is registered as managed (and .managed.json saved) before it is created",
  functions=["ManagedDirectory::open_write", "ManagedDirectory::register_file_as_managed"], bounds="inline depth 2")

M("C01", "M01-6-register-atomic_write", dict(
    root=r"^directory::managed_directory::" + I + r"::atomic_write$", depth=1, unroll=2, inline=[],
    events={"register": {"call": r"ManagedDirectory::register_file_as_managed$"},
            "write": {"call": r"dyn directory::directory::Directory as directory::directory::Directory>::atomic_write$"},
            "ret": {"ret": True}},
    checks=[("precedes_ok", "register", "write"), ("not_after_fail", "register", "write"),
            ("err_propagates", "register"), ("err_propagates", "write")]),
  title="ManagedDirectory::atomic_write registers before writing",
  functions=["ManagedDirectory::atomic_write"], bounds="")

M("C01", "M01-6-register_file", dict(
    root=r"^directory::managed_directory::" + I + r"::register_file_as_managed$", depth=1, unroll=2, inline=[],
    events={"save_managed": {"call": r"managed_directory::save_managed_paths$"},
            "sync": {"call": DIR + r"sync_directory$"},
            "insert": {"call": r"HashSet::<std::path::PathBuf>::insert$"},
            "ret": {"ret": True}},
    checks=[("precedes", "insert", "save_managed"),
            ("err_propagates", "save_managed"), ("err_propagates", "sync")]),
  title="register_file_as_managed persists the managed list; failures are returned",
  functions=["ManagedDirectory::register_file_as_managed"], bounds="")

M("C01", "M01-7-footer-terminate", dict(
    root=r"^directory::footer::" + I + r"::terminate_ref$", depth=1, unroll=2, inline=[],
    events={"append": {"call": r"Footer::append_footer"},
            "finalize": {"call": r"crc32fast::Hasher::finalize$"},
            "terminate": {"call": r"TerminatingWrite>::terminate$|::terminate$"},
            "ret": {"ret": True}},
    checks=[("precedes", "finalize", "append"), ("precedes_ok", "append", "terminate"),
            ("not_after_fail", "append", "terminate"), ("err_propagates", "append")]),
  title="FooterProxy::terminate_ref: checksum finalised, footer appended, then the inner writer is terminated",
  functions=["FooterProxy::terminate_ref"], bounds="")

# =============================================================================================
# C05 searchers are snapshots; readers see whole commits
# =============================================================================================
EV_READER = {
    "lock": {"call": r"Directory>::acquire_lock$", "arg": r"META_LOCK"},
    "release": {"drop_type": r"^directory::directory::DirectoryLock$"},
    "release_move": {"move_type": r"^directory::directory::DirectoryLock$"},
    "read_meta": {"call": r"Index::searchable_segments$|Index::load_metas$|Index::searchable_segment_metas$"},
    "open": {"call": r"SegmentReader::open(\}> as std::iter::Iterator>::collect|$)"},
    "ret": {"ret": True},
}
M("C05", "M05-1-reader-lock-window", dict(
    root=r"^reader::" + I + r"::open_segment_readers$", depth=1, unroll=2, inline=[],
    native=[("on_thread_window", "acquire_lock:.tantivy-meta.lock", "release_lock:.tantivy-meta.lock",
             ["open_read:.term", "open_read:.idx", "open_read:.pos", "open_read:.store", "open_read:.fast"], "main")],
    events=EV_READER,
    checks=[("held_during", "lock", ["release", "release_move"], ["read_meta", "open"]),
            ("not_after_fail", "lock", "read_meta"), ("not_after_fail", "lock", "open"),
            ("precedes_ok", "read_meta", "open"),
            ("err_propagates", "lock"), ("err_propagates", "read_meta"), ("err_propagates", "open")]),
  title="reader: meta.json is resolved and every segment file opened while META_LOCK is held",
  functions=["InnerIndexReader::open_segment_readers"], bounds="")

M("C05", "M05-3-whole-load-or-nothing", dict(
    root=r"^reader::" + I + r"::reload$", root_impl="InnerIndexReader", depth=3, unroll=2,
    inline=[r"InnerIndexReader::create_searcher$", r"InnerIndexReader::reload$"],
    events={"create": {"call": r"InnerIndexReader::create_searcher$", "even_inlined": True},
            "open_readers": {"call": r"InnerIndexReader::open_segment_readers$"},
            "new_searcher": {"call": r"SearcherInner::new$"},
            "store": {"call": r"ArcSwapAny::<.*>::store$"},
            "ret": {"ret": True}},
    checks=[("precedes_ok", "create", "store"), ("precedes_ok", "open_readers", "new_searcher"),
            ("precedes_ok", "new_searcher", "store"),
            ("not_after_fail", "open_readers", "store"), ("not_after_fail", "new_searcher", "store"),
            ("err_propagates", "open_readers"), ("err_propagates", "new_searcher")]),
  title="reload: the current searcher is swapped only after a complete successful load",
  functions=["InnerIndexReader::reload", "InnerIndexReader::create_searcher"], bounds="inline depth 3")

def _comp(name):
    return {"call": r"index::segment::Segment::open_read$", "arg": r"SegmentComponent::%s\b" % name}
M("C05", "M05-4-eager-open", dict(
    root=r"^index::segment_reader::" + I + r"::open_with_custom_alive_set$", depth=1, unroll=2, inline=[],
    events={"terms": _comp("Terms"), "postings": _comp("Postings"), "positions": _comp("Positions"),
            "fast": _comp("FastFields"), "norms": _comp("FieldNorms"), "store": _comp("Store"),
            "delete": _comp("Delete"), "has_deletes": {"call": r"SegmentMeta::has_deletes$"},
            "ret": {"ret": True}},
    checks=[("reach", "terms"), ("reach", "postings"), ("reach", "positions"), ("reach", "fast"),
            ("reach", "norms"), ("reach", "store"), ("reach", "delete"),
            ("err_propagates", "terms"), ("err_propagates", "postings"), ("err_propagates", "fast"),
            ("err_propagates", "norms"), ("err_propagates", "store"), ("err_propagates", "delete"),
            ("last_is", "has_deletes", "delete", True)]),
  title="SegmentReader::open opens every component file inside the constructor (delete file iff the meta has deletes)",
  functions=["SegmentReader::open_with_custom_alive_set"], bounds="")

# =============================================================================================
# C10 garbage collection
# =============================================================================================
EV_GC = {
    "rlock": {"call": r"RwLock::<directory::managed_directory::MetaInformation>::read$"},
    "rrelease": {"drop_type": r"RwLockReadGuard<'_, directory::managed_directory::MetaInformation>"},
    "lock": {"call": r"Directory>::acquire_lock$", "arg": r"META_LOCK"},
    "release": {"drop_type": r"^directory::directory::DirectoryLock$"},
    "living": {"call": r"FnOnce<\(\)>>::call_once$"},
    "contains": {"call": r"HashSet::<std::path::PathBuf>::contains"},
    "mark": {"call": r"Vec::<std::path::PathBuf>::push$", "arg": r"dbg:files_to_delete", "argn": 0},
    "delete": {"call": r"Directory>::delete$"},
    "sync": {"call": DIR + r"sync_directory$"},
    "save_managed": {"call": r"managed_directory::save_managed_paths$"},
    "unmanage": {"call": r"HashSet::<std::path::PathBuf>::remove"},
    "ret": {"ret": True},
}
M("C10", "M10-1-gc-lock-windows", dict(
    root=r"^directory::managed_directory::" + I + r"::garbage_collect$", depth=1, unroll=2, inline=[],
    events=EV_GC,
    checks=[("held_during", "lock", ["release"], ["living", "contains", "mark"]),
            ("held_during", "rlock", ["rrelease"], ["living", "contains", "mark"]),
            ("not_after_fail", "lock", "living"), ("not_after_fail", "lock", "delete"),
            ("not_after_fail", "lock", "mark")]),
  title="GC computes the living set and the deletion candidates while holding the managed-paths read lock and META_LOCK; nothing is deleted when the lock cannot be taken",
  functions=["ManagedDirectory::garbage_collect"], bounds="unroll 2")

M("C10", "M10-2-only-managed-minus-living", dict(
    root=r"^directory::managed_directory::" + I + r"::garbage_collect$", depth=1, unroll=2, inline=[],
    events=EV_GC,
    checks=[("last_is", "contains", "mark", False),
            ("precedes", "living", "mark")]),
  title="a managed path is marked for deletion only on the `living_files.contains(path) == false` branch; deletes only follow marks",
  functions=["ManagedDirectory::garbage_collect"], bounds="unroll 2")

M("C10", "M10-3-gc-bookkeeping", dict(
    root=r"^directory::managed_directory::" + I + r"::garbage_collect$", depth=1, unroll=2, inline=[],
    events=EV_GC,
    checks=[("precedes_ok", "sync", "save_managed"), ("not_after_fail", "sync", "save_managed"),
            ("err_propagates", "sync"), ("err_propagates", "save_managed")]),
  title="after deleting, GC syncs the directory and then persists the shrunken managed list; those failures are returned",
  functions=["ManagedDirectory::garbage_collect"], bounds="unroll 2")

M("C10", "M10-4-living-set-is-inventory", dict(
    root=SU + r"list_files$", depth=1, unroll=2, inline=[],
    events={"all_metas": {"call": r"Index::list_all_segment_metas$"},
            "insert_meta": {"call": r"HashSet::<std::path::PathBuf>::insert$"},
            "meta_path": {"call": r"Path::to_path_buf$", "arg": r"META_FILEPATH"},
            "ret": {"ret": True}},
    checks=[("reach", "all_metas"), ("precedes", "all_metas", "insert_meta"), ("precedes", "meta_path", "insert_meta")]),
  title="the living set handed to GC = files of every SegmentMeta in the inventory + meta.json",
  functions=["SegmentUpdater::list_files"], bounds="")

M("C10", "M10-4b-segment-files", dict(
    root=SU + r"list_files::\{closure#0\}$", depth=1, unroll=2, inline=[],
    events={"seg_files": {"call": r"SegmentMeta::list_files$"}, "ret": {"ret": True}},
    checks=[("reach", "seg_files")]),
  title="... each SegmentMeta contributes SegmentMeta::list_files()",
  functions=["SegmentUpdater::list_files::{closure#0}"], bounds="")

M("C10", "M10-5-gc-after-publication", dict(
    root=SU + r"schedule_commit::\{closure#0\}$", depth=1, unroll=2, inline=[],
    events=ev(save={"call": r"SegmentUpdater::save_metas$"},
              gc={"call": r"segment_updater::garbage_collect_files$"}),
    checks=[("precedes_ok", "save", "gc"), ("not_after_fail", "save", "gc")]),
  title="GC after a commit only runs once the new meta.json was saved",
  functions=["schedule_commit::{closure#0}"], bounds="")

# =============================================================================================
# C11 I/O errors
# =============================================================================================
M("C11", "M11-1-purge_deletes", dict(
    root=SU + r"purge_deletes$", depth=1, unroll=2, inline=[],
    events={"adv": {"call": r"index_writer::advance_deletes$"}, "ret": {"ret": True}},
    checks=[("err_propagates", "adv")]),
  title="purge_deletes returns the first advance_deletes error", functions=["SegmentUpdater::purge_deletes"], bounds="unroll 2")

M("C01", "M01-9-in-memory-meta-follows-the-durable-one", dict(
    root=SU + r"save_metas$", root_impl="SegmentUpdater", depth=2, unroll=2, inline=[r"segment_updater::save_metas$"],
    events=ev(store_meta={"call": r"SegmentUpdater::store_meta$"}),
    checks=[("precedes_ok", "meta_write", "store_meta"), ("not_after_fail", "meta_write", "store_meta"), ("reach", "store_meta")]),
  title="SegmentUpdater::save_metas (commit and end of merge): the in-memory IndexMeta - which keeps the files of the last durable commit alive against garbage collection - is only replaced after meta.json was written successfully; after a failed write a GC followed by a crash would otherwise leave a meta.json that references deleted files",
  functions=["SegmentUpdater::save_metas", "segment_updater::save_metas"], bounds="inline depth 2")

M("C11", "M11-1-commit-task", dict(
    root=SU + r"schedule_commit::\{closure#0\}$", depth=3, unroll=2,
    inline=[r"SegmentUpdater::save_metas$", r"segment_updater::save_metas$"],
    events=ev(purge={"call": r"SegmentUpdater::purge_deletes$"},
              json={"call": r"serde_json::to_vec_pretty"},
              store_meta={"call": r"SegmentUpdater::store_meta$"}),
    checks=[("err_propagates", "purge"), ("err_propagates", "json"), ("err_propagates", "sync"), ("err_propagates", "meta_write"),
            ("not_after_fail", "sync", "meta_write"), ("not_after_fail", "json", "meta_write"),
            ("not_after_fail", "meta_write", "store_meta"), ("precedes_ok", "meta_write", "store_meta")]),
  title="commit task: every storage failure is returned, nothing after a failed step touches meta.json, the in-memory meta only follows a successful write",
  functions=["schedule_commit::{closure#0}", "SegmentUpdater::save_metas", "save_metas"], bounds="inline depth 3")

M("C11", "M11-1-merge", dict(
    root=r"^indexer::segment_updater::merge$", depth=1, unroll=2, inline=[],
    events={"adv": {"call": r"index_writer::advance_deletes$"},
            "open_merger": {"call": r"IndexMerger::open$"},
            "serializer": {"call": r"SegmentSerializer::for_segment$"},
            "write": {"call": r"IndexMerger::write$"},
            "new_meta": {"call": r"Index::new_segment_meta$"},
            "ret": {"ret": True}},
    checks=[("err_propagates", "adv"), ("err_propagates", "open_merger"), ("err_propagates", "serializer"),
            ("err_propagates", "write"), ("precedes_ok", "write", "new_meta"), ("not_after_fail", "write", "new_meta")]),
  title="merge: deletes are advanced before merging; a failed step returns Err and no segment entry is produced",
  functions=["indexer::segment_updater::merge"], bounds="unroll 2")

M("C11", "M11-4-merge-failure-confined", dict(
    root=SU + r"start_merge::\{closure#0\}$", depth=1, unroll=2, inline=[],
    events={"catch": {"call": r"std::panic::catch_unwind"},
            "end_merge": {"call": r"SegmentUpdater::end_merge$"},
            "send": {"call": r"oneshot::Sender<.*>::send$|FutureResult.*send|Sender::<.*>::send$"},
            "ret": {"ret": True}},
    checks=[("reach", "catch"), ("reach", "end_merge"), ("reach", "send"),
            ("precedes", "catch", "end_merge"), ("precedes", "catch", "send")]),
  title="merge worker: merge runs under catch_unwind; its outcome (Ok via end_merge, Err, panic) is sent through the merge future",
  functions=["SegmentUpdater::start_merge::{closure#0}"], bounds="")

M("C11", "M11-1-index_documents", dict(
    root=r"^indexer::index_writer::index_documents$", depth=1, unroll=2, inline=[],
    events={"for_segment": {"call": r"SegmentWriter::for_segment$"},
            "add_doc": {"call": r"SegmentWriter::add_document"},
            "finalize": {"call": r"SegmentWriter::finalize$"},
            "apply_deletes": {"call": r"index_writer::apply_deletes$"},
            "untrack": {"call": r"untrack_temp_docstore$"},
            "add_segment": {"call": r"SegmentUpdater::schedule_add_segment$"},
            "ret": {"ret": True}},
    checks=[("err_propagates", "for_segment"), ("err_propagates", "add_doc"), ("err_propagates", "finalize"),
            ("err_propagates", "apply_deletes"),
            ("precedes_ok", "finalize", "add_segment"), ("not_after_fail", "finalize", "add_segment"),
            ("not_after_fail", "add_doc", "add_segment"), ("not_after_fail", "apply_deletes", "add_segment"),
            ("precedes_ok", "finalize", "untrack")]),
  title="indexing worker: a segment is handed to the updater only after finalize() (all files terminated) succeeded; failures are returned",
  functions=["indexer::index_writer::index_documents"], bounds="unroll 2")

# =============================================================================================
# C18 writer lock
# =============================================================================================
M("C18", "M18-1-lock-before-writer", dict(
    root=r"^index::index::" + I + r"::writer_with_options$", depth=1, unroll=2, inline=[],
    events={"lock": {"call": r"Directory>::acquire_lock$", "arg": r"INDEX_WRITER_LOCK"},
            "any_lock": {"call": r"Directory>::acquire_lock$"},
            "new_writer": {"call": r"IndexWriter::<D>::new$"},
            "release": {"drop_type": r"^directory::directory::DirectoryLock$"},
            "ret": {"ret": True}},
    checks=[("precedes_ok", "lock", "new_writer"), ("not_after_fail", "lock", "new_writer"),
            ("err_propagates", "lock"), ("reach", "any_lock")]),
  title="Index::writer_with_options acquires INDEX_WRITER_LOCK before constructing the writer; a busy lock is returned as an error",
  functions=["Index::writer_with_options"], bounds="")

M("C18", "M18-2-rollback-keeps-lock", dict(
    root=r"^indexer::index_writer::" + I + r"::rollback$", depth=1, unroll=2, inline=[],
    events={"acquire": {"call": r"Directory>::acquire_lock$"},
            "take": {"call": r"Option::<directory::directory::DirectoryLock>::take$"},
            "release": {"drop_type": r"^directory::directory::DirectoryLock$"},
            "release_opt": {"drop_type": r"^std::option::Option<directory::directory::DirectoryLock>$"},
            "kill": {"call": r"SegmentUpdater::kill$"},
            "new_writer": {"call": r"IndexWriter::<D>::new$"},
            "ret": {"ret": True}},
    checks=[("never", "acquire"), ("never", "release"), ("never", "release_opt"),
            ("precedes", "take", "new_writer"), ("precedes", "kill", "new_writer"),
            ("err_propagates", "new_writer")]),
  title="rollback moves the existing lock guard into the replacement writer: no re-acquire, no drop of the guard",
  functions=["IndexWriter::rollback"], bounds="unroll 2")

# =============================================================================================
# C20 checksum wiring
# =============================================================================================
M("C20", "M20-1-validate-checksum", dict(
    root=r"^directory::managed_directory::" + I + r"::validate_checksum$", depth=1, unroll=2, inline=[],
    events={"open": {"call": r"Directory>::open_read$"},
            "extract": {"call": r"Footer::extract_footer$"},
            "read_body": {"call": r"FileSlice::read_bytes$"},
            "update": {"call": r"crc32fast::Hasher::update$"},
            "finalize": {"call": r"crc32fast::Hasher::finalize$"},
            "footer_crc": {"call": r"Footer::crc$"},
            "ret": {"ret": True}},
    checks=[("precedes_ok", "extract", "read_body"), ("precedes_ok", "read_body", "update"),
            ("precedes", "update", "finalize"), ("reach", "footer_crc"),
            ("err_propagates", "open"), ("err_propagates", "extract"), ("err_propagates", "read_body")]),
  title="validate_checksum hashes the body slice returned by extract_footer and compares with the footer's crc",
  functions=["ManagedDirectory::validate_checksum"], bounds="")

M("C20", "M20-1-open_read-gate", dict(
    root=r"^directory::managed_directory::" + I + r"::open_read$", depth=1, unroll=2, inline=[],
    events={"open": {"call": r"dyn directory::directory::Directory as directory::directory::Directory>::open_read$"},
            "extract": {"call": r"Footer::extract_footer$"},
            "compat": {"call": r"Footer::is_compatible$"},
            "ret": {"ret": True}},
    checks=[("precedes_ok", "extract", "compat"), ("err_propagates", "open"), ("err_propagates", "extract"),
            ("err_propagates", "compat")]),
  title="ManagedDirectory::open_read strips the footer and refuses incompatible versions before returning the body",
  functions=["ManagedDirectory::open_read"], bounds="")

# =============================================================================================
# C02 ordering parts decided on MIR
# =============================================================================================
M("C02", "M02-2-advance_deletes", dict(
    root=r"^indexer::index_writer::advance_deletes$", depth=1, unroll=2, inline=[],
    events={"compute": {"call": r"index_writer::compute_deleted_bitset$", "arg": r"dbg:target_opstamp"},
            "with_meta": {"call": r"Segment::with_delete_meta$", "arg": r"dbg:target_opstamp", "argn": 2},
            "open_del": {"call": r"index::segment::Segment::open_write$", "arg": r"SegmentComponent::Delete"},
            "intersect": {"call": r"BitSet::intersect_update$"},
            "set_meta": {"call": r"SegmentEntry::set_meta$"},
            "ret": {"ret": True}},
    checks=[("precedes_ok", "compute", "with_meta"), ("precedes", "with_meta", "open_del"),
            ("precedes_ok", "compute", "set_meta"), ("reach", "intersect")]),
  title="advance_deletes applies the queue up to target_opstamp, keeps earlier deletes (intersection) and stamps the delete file with target_opstamp",
  functions=["indexer::index_writer::advance_deletes"], bounds="unroll 2")

M("C02", "M02-1-delete-loop-guard", dict(
    root=r"^indexer::index_writer::compute_deleted_bitset$", depth=1, unroll=2, inline=[],
    events={"get": {"call": r"DeleteCursor::get$"},
            "process": {"call": r"Weight>::for_each_no_score$"},
            "advance": {"call": r"DeleteCursor::advance$"},
            "ret": {"ret": True}},
    checks=[("edge_requires", {"switch_rv": r"^(Gt|Ge|Lt|Le)\(", "branch": "otherwise"}, "Gt", ("field", r"\(\*_\d+\)\.0: u64"), ("param", "target_opstamp")),
            ("edge_requires", {"switch_rv": r"^(Gt|Ge|Lt|Le)\(", "branch": "0"}, "Le", ("field", r"\(\*_\d+\)\.0: u64"), ("param", "target_opstamp")),
            ("precedes", "get", "process"), ("precedes", "process", "advance"),
            ("not_after_fail", "process", "advance"), ("err_propagates", "process")]),
  title="compute_deleted_bitset: the queue is consumed exactly while op.opstamp <= target_opstamp (break iff >), each processed op is followed by one cursor advance, a failing delete query is returned",
  functions=["indexer::index_writer::compute_deleted_bitset"], bounds="unroll 2; opstamps as SMT integers")

M("C02", "M02-1b-delete-callback", dict(
    root=r"^indexer::index_writer::compute_deleted_bitset::\{closure#0\}$", depth=1, unroll=2, inline=[],
    events={"is_deleted": {"call": r"DocToOpstampMapping::<'_>::is_deleted$"},
            "remove": {"call": r"BitSet::remove$"},
            "ret": {"ret": True}},
    checks=[("last_is", "is_deleted", "remove", True), ("reach", "remove")]),
  title="a matching document is removed from the alive set only on the `is_deleted(doc, op.opstamp) == true` branch",
  functions=["compute_deleted_bitset::{closure#0}"], bounds="unroll 2")

M("C10", "M10-7-reader-window", dict(
    root=r"^reader::" + I + r"::open_segment_readers$", depth=1, unroll=2, inline=[],
    native=[("on_thread_window", "acquire_lock:.tantivy-meta.lock", "release_lock:.tantivy-meta.lock",
             ["open_read:.term", "open_read:.idx", "open_read:.pos", "open_read:.store", "open_read:.fast"], "main")],
    events=EV_READER,
    checks=[("held_during", "lock", ["release", "release_move"], ["read_meta", "open"]),
            ("not_after_fail", "lock", "open")]),
  title="the other side of the GC window: a loading reader holds META_LOCK from reading meta.json until every segment file is open, so GC (which takes the same lock) cannot delete a file in between",
  functions=["InnerIndexReader::open_segment_readers"], bounds="")

# =============================================================================================
# C06 pruning may only rely on block-max metadata that exists
# =============================================================================================
M("C06", "M06-1-single-term-pruning-guard", dict(
    root=r"^query::term_query::term_weight::" + I + r"::for_each_pruning$", depth=2, unroll=2, inline=[],
    native=[("api_ok", "top1_basic_multivalued")], absent_ok_events=["freq_check"],
    events={"freq_check": {"call": r"TermScorer::freq_reading_option$"},
            "wand": {"call": r"block_wand_union::block_wand_single_scorer$"},
            "ret": {"ret": True}},
    checks=[("precedes", "freq_check", "wand")]),
  title="single-term top-K: block-max pruning (block_wand_single_scorer) is only entered after checking that the postings carry term frequencies - block-max metadata is written only then (the union / intersection paths make the same check)",
  functions=["TermWeight::for_each_pruning"], bounds="")

M("C06", "M06-2-union-pruning-guard", dict(
    root=r"^query::boolean_query::boolean_weight::scorer_union$", depth=1, unroll=2, inline=[], auto_inline=False,
    events={"all_readfreq": {"call": r"slice::Iter<'_, query::term_query::term_scorer::TermScorer> as std::iter::Iterator>::all"},
            "term_union": {"stmt": r"SpecializedScorer::(<.*>::)?TermUnion\("},
            "ret": {"ret": True}},
    checks=[("last_is", "all_readfreq", "term_union", True), ("reach", "term_union")]),
  title="union top-K: the block-WAND union is only built on the `all scorers read frequencies` branch",
  functions=["boolean_weight::scorer_union"], bounds="")

M("C13", "M13-1-fill_buffer-clears-drained-slots", dict(
    root=r"^query::union::buffered_union::" + I + r"::fill_buffer$", depth=2, unroll=2, inline=[],
    native=[("api_ok", "union_score_after_fill_buffer")], absent_ok_events=["clear"],
    events={"pop": {"call": r"TinySet::pop_lowest$"},
            "clear": {"call": r"ScoreCombiner>::clear$"},
            "refill": {"call": r"BufferedUnionScorer::<.*>::refill$"},
            "ret": {"ret": True}},
    checks=[("requires_between", "pop", "clear", "refill"), ("requires_between", "pop", "clear", "ret"), ("reach", "refill")]),
  title="BufferedUnionScorer::fill_buffer: a document taken out of the window (pop_lowest = Some) has its score slot cleared before the window is refilled or the call returns - otherwise the slot's old contribution is added to the document that reuses the slot after the refill (score depends on how the document was reached); advance_buffered does clear",
  functions=["BufferedUnionScorer::fill_buffer"], bounds="unroll 2")

M("C06", "M06-4-pruning-guards-compare-with-ReadFreq", dict(
    kind="guard",
    subject=r"TermScorer::freq_reading_option$",
    required=("postings::FreqReadingOption", "ReadFreq"),
    native=[("api_ok", "top1_basic_multivalued"), ("probe", "topk_union_with_freqless_term")],
    # wherever the guards live (they may be moved into helpers): every bool-returning body under
    # query:: that asks freq_reading_option(), every body of the term query that calls the
    # single-scorer pruning loop (block_wand itself also delegates to it, behind the union guard)
    sites=[dict(body=r"^query::(boolean_query|term_query)::", mode="closure_true", expect_min=1),
           dict(body=r"^query::term_query::", mode="before_call", target=r"block_wand_single_scorer$", expect_min=1)]),
  title="block-max pruning is only chosen for term scorers that *read* frequencies: the three guards (union, intersection, single term) pass only when freq_reading_option() == ReadFreq - block-max metadata is written only then (value-level: the comparison constant and operator are executed, not just the presence of the call)",
  functions=["boolean_weight::scorer_union::{closure}", "BooleanWeight::complex_scorer::{closure}", "TermWeight::for_each_pruning"],
  bounds="every path of the three bodies; values the executor does not model are unconstrained")

M("C02", "M02-4-uncommitted-merge-target", dict(
    root=SU + r"consider_merge_options$", depth=1, unroll=2, inline=[], auto_inline=False,
    events={"stamp": {"call": r"Stamper::stamp$"},
            "uncommitted_closure": {"stmt": r"closure@.*\} \{ .*current_opstamp: (?:copy|move) (_\d+)"},
            "unstamped_closure": {"stmt": r"closure@.*\} \{ .*current_opstamp: (?:copy|move) (_\d+)", "group_local_not_from_call": r"Stamper::stamp$"},
            "ret": {"ret": True}},
    absent_ok_events=["unstamped_closure"],
    checks=[("reach", "uncommitted_closure"), ("precedes", "stamp", "uncommitted_closure"), ("never", "unstamped_closure")]),
  title="merges of uncommitted segments get a freshly drawn opstamp as their delete target (so every pending delete is applied to all sources before they are merged)",
  functions=["SegmentUpdater::consider_merge_options"], bounds="")

# ---------------------------------------------------------------------------------------------
# C11: no storage / thread result is dropped unexamined (catches `let _ = ...`, `.is_err()`-only
# inspections, results of join() thrown away) on the writer / updater / store / directory paths.
# The allow list is the exact set of documented sinks of the pinned tree.
# ---------------------------------------------------------------------------------------------
SINKS = [
    (r"schedule_commit::\{closure#0\}$", r"^std::result::Result<directory::GarbageCollectionResult, error::TantivyError>$"),   # `let _ = garbage_collect_files(..)`
    (r"end_merge::\{closure#1\}$", r"^std::result::Result<directory::GarbageCollectionResult, error::TantivyError>$"),
    (r"schedule_task::\{closure#0\}$", r"oneshot::SendError"),                                   # receiver gone
    (r"start_merge::\{closure#0\}$", r"oneshot::SendError"),
    (r"store_compressor::.*::send$", r"mpmc::SendError"),                                         # turned into an io::Error right there
    (r"send_add_documents_batch$", r"crossbeam_channel::SendError"),
    (r"index_writer::.*::rollback$", r"crossbeam_channel::Receiver"),                             # operation_receiver(): drained when Ok
    (r"index_writer::<impl at [^>]*>::drop$", r"std::boxed::Box<dyn std::any::Any"),               # Drop cannot report
    (r"segment_updater::save_metas$", r"serde_json::Error"),                                      # debug! formatting only
]
M("C11", "M11-5-no-dropped-results", dict(
    kind="scan",
    scope=[r"^indexer::segment_updater", r"^indexer::index_writer", r"^indexer::prepared_commit", r"^indexer::segment_serializer",
           r"^indexer::segment_writer::<impl [^>]*>::finalize", r"^store::store_compressor", r"^store::writer",
           r"^directory::managed_directory", r"^directory::footer", r"^reader::<impl"],
    events={"dropped_result": {"drop_type": r"^std::result::Result<", "allow": SINKS}},
    checks=[("never", "dropped_result")], unroll=1),
  title="on the writer / updater / store / directory / reader paths no `Result` is dropped without being matched or propagated, except the documented sinks (GC after commit / merge, closed channels, Drop)",
  functions=[], bounds="unroll 1, per function")

# Error-erasing adapters: `.ok()`, `.err()`, `.unwrap_or*()`, `.is_ok()/.is_err()`, `.map_or*()`,
# `.iter()/.into_iter()` on a `Result` whose error type is an I/O-carrying error, and iterator
# adapters (`flatten`, `filter_map`, `flat_map`, `map_while`) over an iterator of such `Result`s
# (Item resolved from the closure of the outermost `Map` / `FilterMap` or a spelled `Item = ..`), turn an
# I/O failure into "nothing there". On the indexing / merge / store / directory / reader paths
# none may appear outside the allow-list below (each entry read and justified: in-memory decoding
# of already-validated bytes, or the error is re-raised just after).
IOERR = r"(std::io::Error|std::io::ErrorKind|error::TantivyError|OpenReadError|OpenWriteError|OpenDirectoryError|DeleteError|LockError|Incompatibility)"
ERASERS = (r"Result::<.*" + IOERR + r".*>::(ok|err|unwrap_or|unwrap_or_default|unwrap_or_else|is_ok|is_err|map_or|map_or_else|iter|into_iter)$"
           r"|Iterator>::(flatten|filter_map|flat_map|map_while)(::<.*>)? \[Item=std::result::Result<.*" + IOERR)
ERASER_SINKS = [
    (r"managed_directory::.*::wrap$", r"OpenReadError>::err$"),                       # `io_err.err().unwrap().into()`: the error is re-raised
    (r"store::index::skip_index::.*::next$", r"Result::<\(\), std::io::Error>::ok$"),  # in-memory checkpoint block decode ends the layer iterator
    (r"store::reader::block_read_index$", r"Result::<u32, std::io::Error>::unwrap_or$"),  # in-memory offset table; last doc uses the block end
    (r"store::store_compressor::harvest_thread_result$", r"::is_err$"),                 # join result: the panic payload is turned into an io::Error below
]
M("C11", "M11-6-no-error-erasing-adapters", dict(
    kind="scan",
    scope=[r"^indexer::", r"^store::", r"^directory::", r"^reader::", r"^index::", r"^core::", r"^postings::(serializer|postings_writer|per_field_postings_writer|json_postings_writer)",
           r"^fastfield::writer", r"^fieldnorm::(writer|serializer)", r"^termdict::", r"^positions::serializer"],
    events={"erased": {"call": ERASERS, "allow": ERASER_SINKS, "with_item": True}},
    checks=[("never", "erased")], unroll=1),
  title="on the indexing / merge / store / directory / reader paths no I/O-carrying `Result` goes through an error-erasing adapter (ok / err / unwrap_or* / is_ok / is_err / map_or* / Result::iter, Iterator::flatten / filter_map / flat_map / map_while over Results) outside the documented allow-list",
  functions=[], bounds="unroll 1, per function")

# ---------------------------------------------------------------------------------------------
# MmapDirectory's flock-based locks are exclusive on both the blocking (META_LOCK: reader vs GC)
# and the non-blocking (writer lock) branch; the guard is only built after the lock was obtained.
# ---------------------------------------------------------------------------------------------
EV_MMAP_LOCK = {
    "open": {"call": r"OpenOptions::open"},
    "excl": {"call": r"FileExt>::lock_exclusive$"},
    "try_excl": {"call": r"FileExt>::try_lock_exclusive$"},
    "shared": {"call": r"FileExt>::(try_)?lock_shared$"},
    "guard": {"call": r"DirectoryLock as std::convert::From<.*ReleaseLockFile>>>::from$"},
    "ret": {"ret": True},
}
for _p, _oid in (("C05", "M05-5-mmap-meta-lock-exclusive"), ("C10", "M10-8-mmap-meta-lock-exclusive"), ("C18", "M18-4-mmap-writer-lock-exclusive")):
    M(_p, _oid, dict(
        root=r"^directory::mmap_directory::" + I + r"::acquire_lock$", depth=2, unroll=2, inline=[],
        absent_ok_events=["shared"],
        events=EV_MMAP_LOCK,
        checks=[("never", "shared"), ("reach", "excl"), ("reach", "try_excl"),
                ("not_after_fail", "excl", "guard"), ("not_after_fail", "try_excl", "guard"),
                ("err_propagates", "open"), ("err_propagates", "excl")]),
      title="MmapDirectory::acquire_lock takes an exclusive flock on both branches (blocking: META_LOCK shared by reader loads and GC; non-blocking: the writer lock) and builds the guard only after the lock call succeeded",
      functions=["<MmapDirectory as Directory>::acquire_lock"], bounds="")

# =============================================================================================
# more C01: MmapDirectory fsync discipline (M01-5), serializer close, worker hand-over
# =============================================================================================
M("C01", "M01-5-mmap-atomic_write", dict(
    root=r"^directory::mmap_directory::atomic_write$", depth=1, unroll=2, inline=[], auto_inline=False,
    events={"tmp": {"call": r"tempfile::Builder::<.*>::tempfile_in"},
            "write": {"call": r"NamedTempFile as std::io::Write>::write_all$"},
            "flush": {"call": r"NamedTempFile as std::io::Write>::flush$"},
            "fsync": {"call": r"std::fs::File::sync_(data|all)$"},
            "persist": {"call": r"tempfile::TempPath::persist|NamedTempFile::persist"},
            "ret": {"ret": True}},
    checks=[("precedes_ok", "write", "fsync"), ("precedes_ok", "flush", "fsync"), ("precedes_ok", "fsync", "persist"),
            ("not_after_fail", "write", "persist"), ("not_after_fail", "fsync", "persist"),
            ("err_propagates", "tmp"), ("err_propagates", "write"), ("err_propagates", "flush"),
            ("err_propagates", "fsync"), ("err_propagates", "persist")]),
  title="MmapDirectory atomic_write: temp file written, flushed and fsynced before it is renamed over the target; every failure returned",
  functions=["directory::mmap_directory::atomic_write"], bounds="")

M("C01", "M01-5-mmap-terminate", dict(
    root=r"^directory::mmap_directory::" + I + r"::terminate_ref$", depth=1, unroll=2, inline=[], auto_inline=False,
    events={"flush": {"call": r"std::fs::File as std::io::Write>::flush$"},
            "fsync": {"call": r"std::fs::File::sync_(data|all)$"},
            "ret": {"ret": True}},
    checks=[("precedes_ok", "flush", "fsync"), ("reach", "fsync"), ("err_propagates", "flush"), ("err_propagates", "fsync")]),
  title="SafeFileWriter::terminate_ref: flush then fsync of the file data; failures returned",
  functions=["<SafeFileWriter as TerminatingWrite>::terminate_ref"], bounds="")

M("C01", "M01-5-mmap-sync_directory", dict(
    root=r"^directory::mmap_directory::" + I + r"::sync_directory$", depth=1, unroll=2, inline=[], auto_inline=False,
    events={"open": {"call": r"OpenOptions::open"},
            "fsync": {"call": r"std::fs::File::sync_(data|all)$"},
            "ret": {"ret": True}},
    checks=[("precedes_ok", "open", "fsync"), ("reach", "fsync"), ("err_propagates", "open"), ("err_propagates", "fsync")]),
  title="MmapDirectory::sync_directory opens the directory and fsyncs it; failures returned",
  functions=["<MmapDirectory as Directory>::sync_directory"], bounds="")

M("C01", "M01-4-serializer-close", dict(
    root=r"^indexer::segment_serializer::" + I + r"::close$", depth=1, unroll=2, inline=[], auto_inline=False,
    events={"norms": {"call": r"FieldNormsSerializer::close$"},
            "fast": {"call": r"TerminatingWrite>::terminate$"},
            "postings": {"call": r"InvertedIndexSerializer::close$"},
            "store": {"call": r"StoreWriter::close$"},
            "ret": {"ret": True}},
    checks=[("reach", "norms"), ("reach", "fast"), ("reach", "postings"), ("reach", "store"),
            ("err_propagates", "norms"), ("err_propagates", "fast"), ("err_propagates", "postings"), ("err_propagates", "store"),
            ("precedes_ok", "postings", "store")]),
  title="SegmentSerializer::close closes / terminates the field-norm, fast-field, postings and store writers; any failure is returned (Ok only after all four)",
  functions=["SegmentSerializer::close"], bounds="")

M("C01", "M01-4-worker-handover", dict(
    root=r"^indexer::index_writer::index_documents$", depth=1, unroll=2, inline=[], auto_inline=False,
    events={"finalize": {"call": r"SegmentWriter::finalize$"},
            "add_segment": {"call": r"SegmentUpdater::schedule_add_segment$"},
            "ret": {"ret": True}},
    checks=[("precedes_ok", "finalize", "add_segment"), ("not_after_fail", "finalize", "add_segment")]),
  title="a freshly written segment is handed to the segment updater only after finalize() (all component files closed) returned Ok",
  functions=["indexer::index_writer::index_documents"], bounds="unroll 2")

# =============================================================================================
# more C02 / C11: prepare_commit joins every worker before drawing the commit opstamp
# =============================================================================================
EV_PREP = {"take_workers": {"call": r"std::mem::take::<std::vec::Vec<std::thread::JoinHandle<"},
           "join": {"call": r"JoinHandle::<.*>::join$"},
           "new_workers": {"call": r"IndexWriter::<D>::add_indexing_worker$"},
           "stamp": {"call": r"Stamper::stamp$"},
           "prepared": {"call": r"PreparedCommit::<'_, D>::new$"},
           "ret": {"ret": True}}
M("C02", "M02-3-commit-opstamp-after-joins", dict(
    root=r"^indexer::index_writer::" + I + r"::prepare_commit$", depth=1, unroll=2, inline=[], auto_inline=False,
    events=EV_PREP,
    checks=[("precedes", "take_workers", "stamp"), ("precedes", "take_workers", "join"), ("precedes_ok", "stamp", "prepared"),
            ("not_after_fail", "join", "stamp"), ("reach", "prepared"), ("reach", "join")]),
  title="prepare_commit joins the indexing workers (every pending add is in a segment) before the commit opstamp is drawn; a failed worker aborts the commit before any opstamp is drawn",
  functions=["IndexWriter::prepare_commit"], bounds="unroll 2")
M("C11", "M11-3-worker-death-noticed", dict(
    root=r"^indexer::index_writer::" + I + r"::prepare_commit$", depth=1, unroll=2, inline=[], auto_inline=False,
    events=EV_PREP,
    checks=[("err_propagates", "join"), ("err_propagates", "new_workers"), ("not_after_fail", "join", "prepared"),
            ("not_after_fail", "new_workers", "prepared")]),
  title="prepare_commit returns Err when a worker's join reports an error or a panic, and no PreparedCommit is produced",
  functions=["IndexWriter::prepare_commit"], bounds="unroll 2")
M("C18", "M18-3-wait_merging_threads-errors", dict(
    root=r"^indexer::index_writer::" + I + r"::wait_merging_threads$", depth=1, unroll=2, inline=[], auto_inline=False,
    events={"join": {"call": r"JoinHandle::<.*>::join$"}, "wait": {"call": r"SegmentUpdater::wait_merging_thread$"},
            "acquire": {"call": r"Directory>::acquire_lock$"}, "ret": {"ret": True}},
    absent_ok_events=["acquire"],
    checks=[("err_propagates", "join"), ("err_propagates", "wait"), ("never", "acquire"), ("reach", "wait")]),
  title="wait_merging_threads consumes the writer (the lock guard field is dropped with it on every exit), reports worker / merge errors and never touches the lock itself",
  functions=["IndexWriter::wait_merging_threads"], bounds="unroll 2")

# =============================================================================================
# more C20: Index::validate_checksum visits the managed files of the committed segments
# =============================================================================================
M("C20", "M20-2-index-validate", dict(
    root=r"^index::index::" + I + r"::validate_checksum$", depth=1, unroll=2, inline=[], auto_inline=False,
    events={"managed": {"call": r"ManagedDirectory::list_managed_files$"},
            "metas": {"call": r"Index::searchable_segment_metas$"},
            "intersect": {"call": r"HashSet::<std::path::PathBuf>::intersection$"},
            "validate": {"call": r"ManagedDirectory::validate_checksum$"},
            "report": {"call": r"HashSet::<std::path::PathBuf>::insert$"},
            "ret": {"ret": True}},
    checks=[("precedes", "managed", "validate"), ("precedes_ok", "metas", "validate"), ("precedes", "intersect", "validate"),
            ("precedes_ok", "validate", "report"), ("err_propagates", "metas"), ("err_propagates", "validate")]),
  title="Index::validate_checksum checks the managed files of the committed segments and collects failing files only after a validation call; open / read errors are returned",
  functions=["Index::validate_checksum"], bounds="unroll 2")

M("C06", "M06-3-merge-pushes-in-address-order", dict(
    root=r"^collector::sort_key_top_collector::merge_top_k$", depth=2, unroll=2, inline=[],
    native=[("api_ok", "topk_tie_break_multi_segment")], absent_ok_events=["order"],
    events={"order": {"call": r"(slice::<impl \[.*\]>|std::vec::Vec<.*>)::sort(_unstable)?(_by|_by_key)?"},
            "push": {"call": r"TopNComputer::<.*>::push$"},
            "ret": {"ret": True}},
    checks=[("precedes", "order", "push"), ("reach", "push")]),
  title="merge_top_k establishes TopNComputer's documented precondition (items pushed in ascending address order; the per-segment fruits come from into_vec(), which promises no order) by ordering the items before the push loop; TopNComputer itself is decided under that precondition by the K06-topn harnesses",
  functions=["collector::sort_key_top_collector::merge_top_k"], bounds="")


M("C10", "M10-9-empty-segments-leave-the-register", dict(
    root=r"^indexer::segment_manager::" + I + r"::committed_segment_metas$", depth=2, unroll=2, inline=[],
    native=[("api_ok", "no_orphan_after_emptied_segment")], absent_ok_events=["evict"],
    events={"evict": {"call": r"SegmentManager::remove_empty_segments$"},
            "list": {"call": r"SegmentRegister::segment_metas$"},
            "ret": {"ret": True}},
    checks=[("precedes", "evict", "list"), ("reach", "list")]),
  title="a segment whose documents were all deleted is evicted from the committed register before the committed metas are listed (commit / end_merge): its tracked SegmentMeta otherwise stays in the inventory, GC keeps its files for the writer's lifetime and they are orphans (confirmed natively by the no-orphan probe)",
  functions=["SegmentManager::committed_segment_metas"], bounds="")

M("C12", "M12-1-merge-token-count-exact-without-deletes", dict(
    root=r"^indexer::merger::estimate_total_num_tokens_in_single_segment$", depth=2, unroll=2, inline=[],
    native=[("api_ok", "merge_keeps_exact_token_count")],
    events={"has_deletes": {"call": r"SegmentReader::has_deletes$"},
            "fieldnorms": {"call": r"FieldNormReaders::get_field$"},
            "alive_ratio": {"call": r"SegmentReader::num_docs$"},
            "exact": {"call": r"InvertedIndexReader::total_num_tokens$"},
            "ret": {"ret": True}},
    absent_ok_events=["alive_ratio"],
    checks=[("precedes_true", "has_deletes", "fieldnorms"), ("reach", "exact"), ("reach", "fieldnorms")]),
  title="merge: the token count a source segment contributes is only *estimated* (field-norm buckets / alive ratio) on paths where has_deletes() returned true; without deletes the exact stored total is used, so BM25's average field length does not depend on the segment split (confirmed natively by the token-count probe)",
  functions=["merger::estimate_total_num_tokens_in_single_segment"], bounds="")

M("C02", "M02-5-merged-cursor-taken-after-advancing-deletes", dict(
    root=r"^indexer::segment_updater::merge$", depth=2, unroll=2, inline=[],
    native=[("probe", "update_survives_uncommitted_merge")],
    events={"advance": {"call": r"index_writer::advance_deletes$"},
            "cursor": {"call": r"DeleteCursor as std::clone::Clone>::clone$"},
            "ret": {"ret": True}},
    checks=[("requires_between", "cursor", "ret", "advance"), ("reach", "cursor"), ("reach", "advance")]),
  title="merge(): the delete cursor handed to the merged segment is cloned after every source was advanced to the target opstamp - no advance_deletes follows the clone - so deletes older than the target are not replayed (unmapped, i.e. onto every document) on the merged segment (confirmed natively by the update-survives-merge probe)",
  functions=["segment_updater::merge"], bounds="unroll 2")

for _p, _oid in (("C05", "M05-6-committed-merges-target-the-commit-opstamp"), ("C01", "M01-8-committed-merges-target-the-commit-opstamp")):
    M(_p, _oid, dict(
        root=SU + r"consider_merge_options$", depth=2, unroll=2, inline=[],
        native=[("probe", "uncommitted_delete_not_published_by_background_merge")], absent_ok_events=["commit_opstamp"],
        events={"commit_opstamp": {"call": r"SegmentUpdater::load_meta$"},
                "start": {"call": r"SegmentUpdater::start_merge$"},
                "ret": {"ret": True}},
        checks=[("precedes", "commit_opstamp", "start"), ("reach", "start")]),
      title="policy-driven merges: before any merge is started the last commit's opstamp is read (merges of committed segments are targeted at it, so they apply no delete that is still uncommitted and end_merge publishes nothing a commit did not contain); confirmed natively by the background-merge probe",
      functions=["SegmentUpdater::consider_merge_options"], bounds="")

M("C18", "M18-5-ram-directory-create-if-absent-is-one-critical-section", dict(
    root=r"^directory::ram_directory::" + I + r"::open_write$", root_impl="RamDirectory", depth=1, unroll=2, inline=[], auto_inline=False,
    native=[("probe", "single_writer_under_racing_creations")], absent_ok_events=["rlock", "exists"],
    events={"wlock": {"call": r"RwLock::<directory::ram_directory::InnerDirectory>::write$"},
            "rlock": {"call": r"RwLock::<directory::ram_directory::InnerDirectory>::read$"},
            "create": {"call": r"InnerDirectory::write$"},
            "exists": {"call": r"InnerDirectory::exists$"},
            "ret": {"ret": True}},
    checks=[("never", "rlock"), ("never", "exists"), ("precedes", "wlock", "create"), ("requires_between", "wlock", "ret", "wlock"), ("reach", "create")]),
  title="RamDirectory::open_write (the create-new primitive the default writer lock rests on): the file is created under ONE acquisition of the directory's write lock and 'already exists' is what that creation itself reports - no separate existence check, no read lock, no second acquisition (a check-then-create race lets several writers in); confirmed natively by the racing-creations probe",
  functions=["<RamDirectory as Directory>::open_write"], bounds="")

M("C08", "M08-1-optional-index-writer-asks-the-readers-predicate", dict(
    crate="columnar",
    root=r"^column_index::optional_index::serialize_optional_index_block$", depth=1, unroll=2, inline=[], auto_inline=False,
    native=[("probe", "optional_index_block_at_dense_threshold")], absent_ok_events=["predicate"],
    events={"predicate": {"call": r"optional_index::is_sparse$"},
            "sparse": {"call": r"SparseBlockCodec as .*SetCodec>::serialize"},
            "dense": {"call": r"DenseBlockCodec as .*SetCodec>::serialize"},
            "ret": {"ret": True}},
    checks=[("precedes", "predicate", "sparse"), ("precedes", "predicate", "dense"), ("reach", "sparse"), ("reach", "dense")]),
  title="optional index: the writer picks the sparse or the dense block encoding by the same predicate (`is_sparse(len)`) the reader uses to decode the block - a writer-side criterion of its own can disagree at the boundary (5120 values: both encodings take 10240 bytes) and the block is then decoded in the wrong format (confirmed natively by the threshold probe)",
  functions=["columnar::column_index::optional_index::serialize_optional_index_block"], bounds="")

M("C10", "M10-10-temp-docstore-untracked-on-the-published-meta", dict(
    root=r"^indexer::index_writer::index_documents$", depth=2, unroll=2, inline=[],
    native=[("probe", "no_temp_docstore_after_gc_on_sorted_index")],
    events={"final_meta": {"call": r"Segment::with_max_doc$"},
            "untrack": {"call": r"SegmentMeta::untrack_temp_docstore$"},
            "ret": {"ret": True}},
    checks=[("precedes", "final_meta", "untrack"), ("reach", "untrack")]),
  title="a freshly written segment: the temporary doc store is untracked on the meta that is published (built by with_max_doc), not on the pre-finalization meta - otherwise `<uuid>.store.temp` stays in the living set and GC never removes it (confirmed natively by the sorted-index probe)",
  functions=["index_writer::index_documents"], bounds="unroll 2")

M("C12", "M12-2-intersection-fieldnorms-from-the-leader-after-sorting", dict(
    root=r"^query::boolean_query::block_wand_intersection::block_wand_intersection$", depth=2, unroll=2, inline=[],
    native=[("probe", "two_field_conjunction_scores")],
    events={"sort": {"call": r"TermScorer\]>::sort_by_key"},
            "fieldnorms": {"call": r"TermScorer::fieldnorm_reader$"},
            "ret": {"ret": True}},
    checks=[("precedes", "sort", "fieldnorms"), ("reach", "fieldnorms")]),
  title="block-max intersection (TopDocs over Must term clauses): the leader's field-norm reader is taken after the scorers were ordered - field norms are per field, so a reader grabbed from `scorers[0]` before the sort scores the leader with another field's lengths (confirmed natively by the two-field conjunction probe)",
  functions=["block_wand_intersection::block_wand_intersection"], bounds="unroll 2")

M("C02", "M02-6-memory-cut-only-between-groups", dict(
    root=r"^indexer::index_writer::index_documents$", depth=2, unroll=2, inline=[],
    native=[("probe", "run_groups_survive_memory_cut")],
    events={"next_group": {"call": r"dyn std::iter::Iterator<Item = smallvec::SmallVec<\[indexer::operation::AddOperation<D>; 4\]>> as std::iter::Iterator>::next$"},
            "add": {"call": r"SegmentWriter::add_document"},
            "budget": {"call": r"SegmentWriter::mem_usage$"},
            "ret": {"ret": True}},
    checks=[("requires_between", "budget", "next_group", "add"), ("reach", "budget"), ("reach", "add")]),
  title="indexing worker: the memory budget is consulted between groups of operations only - after a budget check no document is added before the next group is fetched - so a segment cut never drops the rest of a `run` batch (confirmed natively by the run-groups probe)",
  functions=["index_writer::index_documents"], bounds="unroll 2")

M("C11", "M11-7-only-a-missing-positions-file-is-tolerated", dict(
    kind="guard", subject_result=True,
    subject=r"index::segment::Segment::open_read$",
    required=("directory::error::OpenReadError", "FileDoesNotExist", "src/directory/error.rs"),
    # wherever in the segment reader the empty composite is substituted (it may move into a helper)
    sites=[dict(body=r"^index::segment_reader::", mode="before_call", target=r"CompositeFile::empty$", expect_min=1)]),
  title="SegmentReader::open: the positions file may be absent, nothing else is tolerated - the empty composite is only substituted when the preceding open_read failed with OpenReadError::FileDoesNotExist; an I/O error or an incompatible file is returned to the caller (reload, merge, advance_deletes)",
  functions=["SegmentReader::open_with_custom_alive_set"], bounds="every path to CompositeFile::empty(); values the executor does not model are unconstrained")

M("C10", "M10-11-in-memory-meta-follows-the-durable-one", dict(
    root=SU + r"save_metas$", root_impl="SegmentUpdater", depth=2, unroll=2, inline=[r"segment_updater::save_metas$"],
    events=ev(store_meta={"call": r"SegmentUpdater::store_meta$"}),
    checks=[("precedes_ok", "meta_write", "store_meta"), ("not_after_fail", "meta_write", "store_meta"), ("reach", "store_meta")]),
  title="the in-memory IndexMeta keeps the files of the last durable commit in GC's living set: it is only replaced after meta.json was written successfully (otherwise a GC after a failed commit / merge publication deletes files the meta.json on storage still lists)",
  functions=["SegmentUpdater::save_metas", "segment_updater::save_metas"], bounds="inline depth 2")

M("C18", "M18-6-lock-held-until-merges-were-awaited", dict(
    root=r"^indexer::index_writer::" + I + r"::wait_merging_threads$", depth=2, unroll=2, inline=[],
    native=[("probe", "lock_held_while_waiting_for_merges")], absent_ok_events=["release"],
    events={"wait": {"call": r"SegmentUpdater::wait_merging_thread$"},
            "release": {"call": r"Option::<directory::directory_lock::DirectoryLock>::take$|std::mem::drop::<.*DirectoryLock|std::mem::replace::<.*DirectoryLock|std::mem::take::<.*DirectoryLock"},
            "ret": {"ret": True}},
    checks=[("precedes", "wait", "release"), ("reach", "wait")]),
  title="wait_merging_threads: the writer lock is not given up before the pending merges were awaited (merge threads still write segment files and publish meta.json); it goes with the writer when the call returns (confirmed natively by the gated-merge probe)",
  functions=["IndexWriter::wait_merging_threads"], bounds="unroll 2")

M("C20", "M20-3-every-ok-verdict-comes-from-the-crc", dict(
    root=r"^directory::managed_directory::" + I + r"::validate_checksum$", depth=2, unroll=2, inline=[],
    native=[("probe", "revalidation_detects_later_corruption")],
    events={"finalize": {"call": r"crc32fast::Hasher::finalize$"},
            "ret": {"ret": True}},
    checks=[("ok_requires", "finalize"), ("reach", "finalize")]),
  title="ManagedDirectory::validate_checksum: every Ok(..) verdict was obtained by hashing the file's current content - no path returns Ok without having computed the CRC (no memoised verdicts; confirmed natively by the re-validation probe)",
  functions=["ManagedDirectory::validate_checksum"], bounds="unroll 2")

# =============================================================================================
# C03: mixed-type numeric range bounds (mirbv: loop-free integer MIR -> QF_BV)
# =============================================================================================
M("C03", "M03-1-json-range-bound-transformations", dict(
    kind="bounds",
    parent=r"^query::range_query::range_query_fastfield::search_on_json_numerical_field$",
    literals=["i64", "u64"]),
  title="range query with an integer literal on a numeric column of another integer type: for every literal and every column value, the value satisfies the transformed bound (order-preserving u64 space) iff it satisfies the written bound numerically - lower / upper, inclusive / exclusive",
  functions=["search_on_json_numerical_field::{closure#..} (bound transformers)"],
  bounds="all 64-bit literals x all 64-bit column values; i64 / u64 literals on i64 / u64 columns; f64 columns and f64 literals outside (f64 literals: K03-f64-bounds-*)",
  assumes=["BoundsRange::transform_inner / map_bound apply the closure to the inner value and keep the bound kind for TransformBound::Existing (K03-transform-bound)",
           "search_on_u64_ff selects the rows whose mapped value satisfies the transformed bounds (bound_to_value_range: K03-bound-to-range; column scan: C08)"])


# =============================================================================================
# C17: the key a fresh segment of a sorted index is ordered by (mirbv on the columnar crate's MIR)
# =============================================================================================
M("C17", "M17-1-segment-sort-key-is-order-preserving", dict(
    kind="sortkey", crate="columnar",
    # the value -> key body, wherever it lives in the writer module (closure of sort_order or a helper)
    closure=r"^columnar::writer::", param_ty=r"value::NumericalValue", rets=("std::option::Option<u64>", "u64"), enum="value::NumericalValue",
    variants=[("I64", "i64"), ("U64", "u64")]),
  title="ColumnarWriter::sort_order: the u64 key a numerical sort field is compared by preserves the order of the values (i64 and u64 variants): a < b iff key(a) < key(b) - the permutation of a freshly written segment of a sorted index is computed from these keys",
  functions=["ColumnarWriter::sort_order::{closure} (value -> key)"],
  bounds="all pairs of 64-bit values, i64 and u64 variants; the f64 variant goes through common::f64_to_u64 (K03-f64-order); the stable sort on the keys, null placement and the `reversed` flag are outside",
  assumes=["the i64 / u64 maps are the ones modelled (K03-map-i64, K03-map-columnar)"])
