"""Registry of obligations per property. Each obligation names the real functions it executes
symbolically, its bounds, stubs and assumptions; the drivers only discharge what is listed here.

K(...)  Kani harness (compiled in-crate through a cfg(kani) hook), decided by CBMC.
M(...)  mirproto obligation (MIR -> SMT), decided by z3 (+cvc5 cross-check).
"""
import re

OBL = []
THOROUGH_TIMEOUT_FACTOR = 4

FUNCTIONAL = ["--no-bounds-check", "--no-pointer-check"]


def K(prop, oid, harness, crate="tantivy", tiers="qt", timeout=300, title="", functions=(), bounds="",
      assumes=(), stubs=(), unwindset=(), checks="functional", mem=14, group=None, role=None,
      expected_panics=()):
    OBL.append(dict(engine="K", prop=prop, id="%s/%s" % (prop, oid), harness=harness, crate=crate, tiers=tiers,
                    timeout=timeout, title=title, functions=list(functions), bounds=bounds,
                    assumes=list(assumes), stubs=list(stubs), unwindset=list(unwindset), checks=checks,
                    mem=mem, group=group, role=role, expected_panics=list(expected_panics)))


def M(prop, oid, spec, tiers="qt", title="", functions=(), bounds="", assumes=(), timeout=120, role=None):
    OBL.append(dict(engine="M", prop=prop, id="%s/%s" % (prop, oid), spec=spec, tiers=tiers, title=title,
                    functions=list(functions), bounds=bounds, assumes=list(assumes), timeout=timeout,
                    role=role))


def select(prop, tier, seed=0):
    sel = []
    for o in OBL:
        if o["prop"] != prop:
            continue
        if tier == "quick" and "q" not in o["tiers"]:
            continue
        if tier == "thorough" and "t" not in o["tiers"]:
            continue
        sel.append(o)
    # quick tier: of a concretised family (group) run one member, chosen by the seed
    if tier == "quick":
        groups = {}
        for o in sel:
            if o.get("group"):
                groups.setdefault(o["group"], []).append(o)
        drop = set()
        for g, members in groups.items():
            keep = members[seed % len(members)]
            for m in members:
                if m is not keep:
                    drop.add(m["id"])
        sel = [o for o in sel if o["id"] not in drop]
    return sel


def cbmc_flags(o):
    return FUNCTIONAL if o.get("checks", "functional") == "functional" else []


def is_resource_limit(r):
    why = r.get("reason", "") or ""
    return why.startswith("timeout") or "out of memory" in why


def match_known(known, prop, r):
    """A recorded finding suppresses a violation only when obligation AND the failing check
    (file + description role) match; anything else of the same property is still a VIOLATION."""
    for kf in known.get("findings", []):
        if kf.get("property") != prop or kf.get("obligation") != r["id"]:
            continue
        pats = kf.get("failed_check_patterns", [])
        fails = r.get("failed", [])
        if fails and all(any(re.search(p, (f.get("desc") or "") + " " + str(f.get("file")) + ":" + str(f.get("line")))
                             for p in pats) for f in fails):
            return kf
    return None


def evidence(prop, tier, seed, records, build_info, wall, nviol):
    discharged = [r for r in records if r["verdict"] == "discharged"]
    witnessed = [r for r in discharged if r.get("witnessed", any(c.get("satisfied") for c in r.get("covers", [])))]
    queries = 0
    solver_s = 0.0
    states = 0
    transitions = 0
    replayed = 0
    samples = []
    functions = set()
    stubs = set()
    assumes = set()
    for r in records:
        st = r.get("stats", {})
        queries += r.get("queries", 0) or (st.get("vccs_remaining") or 0) or (1 if r["verdict"] == "discharged" else 0)
        solver_s += st.get("solver_s", 0.0) or r.get("solver_s", 0.0) or 0.0
        # encoded program points / edges: CBMC SSA steps and generated VCCs, mirproto DAG nodes and edges
        states += (st.get("program_steps") or 0) + sum(c.get("nodes", 0) for c in (r.get("detail") or {}).get("checks", [])) \
            + ((r.get("detail") or {}).get("functions_scanned") or 0)
        transitions += (st.get("vccs") or 0) + sum(c.get("edges", 0) for c in (r.get("detail") or {}).get("checks", []))
        if r.get("replay"):
            replayed += 1
        for f in r.get("functions", []):
            functions.add(f)
        for s in r.get("stubs", []):
            stubs.add(str(s))
        for s in r.get("assumes", []):
            assumes.add(s)
        samples.append({
            "obligation": r["id"], "engine": r["engine"], "title": r.get("title"),
            "harness_or_spec": r.get("harness") or r.get("spec"),
            "verdict": r["verdict"], "reason": r.get("reason"),
            "functions_encoded": r.get("functions"), "bounds": r.get("bounds"),
            "unwind": r.get("unwind"), "unwindset": r.get("unwindset"),
            "cbmc_checks": ("rust-level assertions/panics/overflow + unwinding assertions; CBMC pointer/bounds checks off"
                            if r.get("checks", "functional") == "functional" else "kani default") if r["engine"] == "K" else None,
            "program_steps": st.get("program_steps"), "vccs": st.get("vccs"), "vccs_after_simplification": st.get("vccs_remaining"),
            "sat_vars": st.get("sat_vars"), "sat_clauses": st.get("sat_clauses"),
            "symex_s": st.get("symex_s"), "solver_s": st.get("solver_s") or r.get("solver_s"),
            "wall_s": r.get("wall_s"), "peak_rss_mb": r.get("peak_rss_mb"),
            "cover_witnesses": r.get("covers"),
            "checks_decided": r.get("checks"), "checks_unreachable": r.get("unreachable_checks"),
            "detail": r.get("detail"),
            "failed": r.get("failed"), "replay": r.get("replay"),
        })
    ev = {
        "property_id": prop, "tier": tier, "seed": seed, "level": "model_checking",
        "coverage": {
            "evaluations": max(queries, 1),
            "distinct_nontrivial": len(witnessed),
            "rule": ("evaluations = solver queries discharged (CBMC verification conditions remaining after "
                     "simplification, summed over harnesses, plus z3 queries of mirproto obligations); "
                     "distinct_nontrivial = obligations (distinct harnesses / protocol obligations) that were "
                     "discharged AND whose reachability witness (kani::cover! / sat-twin of the mirproto query) "
                     "was satisfied, i.e. non-vacuous"),
            "states": max(states, 1), "transitions": max(transitions, 1),
            "traces_validated_against_impl": replayed,
            "explanation": ("bounded symbolic model checking of the real code: states = encoded program points (CBMC SSA steps of the "
                            "harness programs + nodes of the inlined / unrolled MIR control-flow DAGs), transitions = CBMC verification "
                            "conditions generated + DAG edges, traces_validated_against_impl = counterexamples of this run replayed "
                            "against the native build (Kani concrete playback / replay-bin scenario); 0 when nothing was violated"),
            "obligations": len(records), "discharged": len(discharged),
            "inconclusive": len([r for r in records if r["verdict"] == "inconclusive"]),
            "samples": samples,
            "functions_encoded": sorted(functions),
            "solver_time_s": round(solver_s, 1),
            "builds": build_info,
            "checker_cmd": "./check %s --tier %s" % (prop, tier),
            "trusted_base": ["rustc/kani-compiler MIR->goto translation", "CBMC 6.11 + CaDiCaL", "nightly rustc -Zunpretty=mir printer",
                             "z3 4.8.12 / cvc5 1.0", "harness oracles and event tables under /verif"],
            "exhaustive": False,
        },
        "assumptions": sorted(assumes) + ["stubs: " + s for s in sorted(stubs)],
        "wall_s": round(wall, 1), "violations": nviol,
    }
    return ev


# =============================================================================================
# registry
# =============================================================================================
from registry import *  # noqa: E402,F401  (fills OBL through K()/M())
