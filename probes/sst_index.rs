use super::*;
#[kani::proof]
#[kani::unwind(6)]
fn probe_shorter_str() {
    let lb: [u8; 3] = kani::any();
    let rb: [u8; 3] = kani::any();
    let ll: usize = kani::any();
    let rl: usize = kani::any();
    kani::assume(ll <= 3 && rl <= 3);
    kani::assume(&lb[..ll] < &rb[..rl]);
    let mut left: Vec<u8> = Vec::with_capacity(4);
    let mut i = 0;
    while i < 3 { if i < ll { left.push(lb[i]); } i += 1; }
    find_shorter_str_in_between(&mut left, &rb[..rl]);
    assert!(&lb[..ll] <= &left[..]);
    assert!(&left[..] < &rb[..rl]);
    assert!(left.len() <= ll);
    std::mem::forget(left);
}
