use super::*;
#[kani::proof]
#[kani::unwind(6)]
fn probe_docid_mapping() {
    const N: usize = 4;
    let p: [u32; N] = kani::any();
    let mut seen = 0u32;
    let mut i = 0;
    while i < N { kani::assume(p[i] < N as u32); seen |= 1 << p[i]; i += 1; }
    kani::assume(seen == (1 << N) - 1);
    let mut v: Vec<u32> = Vec::with_capacity(N);
    v.extend_from_slice(&p);
    let m = DocIdMapping::from_new_id_to_old_id(v);
    let xs: [u64; N] = kani::any();
    let r = m.remap(&xs);
    let j: usize = kani::any();
    kani::assume(j < N);
    assert!(m.get_new_doc_id(p[j]) == j as u32);
    assert!(r[j] == xs[p[j] as usize]);
    assert!(m.len() == N);
    std::mem::forget(m); std::mem::forget(r);
}
