use super::*;
fn heap_check<const K: usize, const M: usize>() {
    let scores_raw: [u8; M] = kani::any();
    let mut top = TopNHeap::new(K);
    let mut i = 0;
    while i < M { top.push(scores_raw[i] as Score, i as DocId); i += 1; }
    let thr = top.threshold;
    let res = top.into_vec();
    assert!(res.len() == K.min(M));
    // every returned doc has rank < K by (score desc, doc asc); all distinct
    let mut r = 0;
    while r < res.len() {
        let (s, d) = res[r];
        assert!((d as usize) < M && s == scores_raw[d as usize] as Score);
        let mut better = 0; let mut j = 0;
        while j < M { let sj = scores_raw[j] as Score; if sj > s || (sj == s && j < d as usize) { better += 1; } j += 1; }
        assert!(better < K);
        r += 1;
    }
    if M >= K { // threshold = exact K-th best score
        let t = thr.unwrap();
        let mut ge = 0; let mut gt = 0; let mut j = 0;
        while j < M { let sj = scores_raw[j] as Score; if sj >= t { ge += 1; } if sj > t { gt += 1; } j += 1; }
        assert!(ge >= K && gt < K);
    }
    std::mem::forget(res);
}
#[kani::proof]
#[kani::unwind(8)]
fn probe_topnheap_k2() { heap_check::<2, 5>(); }
