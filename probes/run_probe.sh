#!/bin/bash
h=$1; t=${2:-300}; shift; shift
cd /tmp/rp
mkdir -p /tmp/rp/klogs
start=$(date +%s)
( ulimit -v 24000000; CARGO_NET_OFFLINE=true timeout $t cargo kani --no-default-features --target-dir /tmp/rp-target2 --harness $h "$@" > klogs/$h.log 2>&1 ; echo "EXIT $?" >> klogs/$h.log )
end=$(date +%s)
echo "$h wall=$((end-start))s $(grep -E 'VERIFICATION|EXIT|Verification Time|^error' klogs/$h.log | head -5 | tr '\n' ' ')"
