// Measured, not registered: DeltaWriter -> DeltaReader and value codec round trips.
// 2 entries, concrete suffix lengths, symbolic keep: symbolic execution exceeds 12 GB (1.0 M steps,
// BufWriter<Vec<u8>> + Vec growth paths) before the solver starts; see DESIGN.md section 9.

// ---------------------------------------------------------------------------------------------
// K15-delta-*: front-coded block layer. DeltaWriter::{write_suffix, write_value, flush_block} ->
// DeltaReader::{advance, common_prefix_len, suffix, value}: every (keep, add, suffix) written comes
// back unchanged, in order, and the block ends exactly after the last entry. Covers the one-byte
// nibble form (keep < 16 && add < 16) and the VInt escape (either >= 16), whose marker byte 0x01
// must never be produced by the nibble form for an entry a strictly increasing key sequence can
// produce (keep = 1 needs add >= 1).
fn delta_bytes<TW: value::ValueWriter>(w: delta::DeltaWriter<Vec<u8>, TW>) -> Vec<u8> {
    match w.finish().finish().into_inner() {
        Ok(v) => v,
        Err(e) => {
            std::mem::forget(e);
            panic!("flush of an in-memory writer failed");
        }
    }
}

fn delta_advance<TR: value::ValueReader>(r: &mut delta::DeltaReader<TR>) -> bool {
    match r.advance() {
        Ok(b) => b,
        Err(e) => {
            std::mem::forget(e);
            panic!("block written by DeltaWriter is refused by DeltaReader");
        }
    }
}

fn delta_keep_add_roundtrip<const ADD0: usize, const ADD1: usize>(keep1: usize) {
    let (s0, s1): ([u8; ADD0], [u8; ADD1]) = (kani::any(), kani::any());
    let (add0, add1) = (ADD0, ADD1);
    // entries a strictly increasing key sequence can produce: a later key of a block either
    // adds at least one byte, or (keep = 0, add = 0) would be the empty key, which is never second
    assert!(ADD1 >= 1);
    let mut w: delta::DeltaWriter<Vec<u8>, value::VoidValueWriter> = delta::DeltaWriter::new(Vec::with_capacity(64));
    w.write_suffix(0, &s0[..add0]);
    w.write_value(&());
    w.write_suffix(keep1, &s1[..add1]);
    w.write_value(&());
    match w.flush_block() {
        Ok(Some(range)) => assert!(range.start == 0),
        Ok(None) => panic!("non-empty block not flushed"),
        Err(e) => {
            std::mem::forget(e);
            panic!("flush failed");
        }
    }
    let bytes = delta_bytes(w);
    let mut r: delta::DeltaReader<value::VoidValueReader> = delta::DeltaReader::new(OwnedBytes::new(bytes));
    assert!(delta_advance(&mut r));
    assert!(r.common_prefix_len() == 0);
    let got0 = r.suffix();
    assert!(got0.len() == add0);
    let mut i = 0;
    while i < ADD0 {
        if i < add0 {
            assert!(got0[i] == s0[i]);
        }
        i += 1;
    }
    assert!(delta_advance(&mut r));
    assert!(r.common_prefix_len() == keep1);
    let got1 = r.suffix();
    assert!(got1.len() == add1);
    let mut i = 0;
    while i < ADD1 {
        if i < add1 {
            assert!(got1[i] == s1[i]);
        }
        i += 1;
    }
    assert!(!delta_advance(&mut r));
    kani::cover!(s1[0] == 1);
    std::mem::forget(r);
}

#[kani::proof]
#[kani::unwind(18)]
fn c15_delta_roundtrip_nibble() {
    let keep1: usize = kani::any();
    kani::assume(keep1 < 16);
    delta_keep_add_roundtrip::<2, 1>(keep1);
}

#[kani::proof]
#[kani::unwind(18)]
fn c15_delta_roundtrip_nibble_max() {
    let keep1: usize = kani::any();
    kani::assume(keep1 < 16);
    delta_keep_add_roundtrip::<15, 15>(keep1);
}

#[kani::proof]
#[kani::unwind(18)]
fn c15_delta_roundtrip_escape_add() {
    let keep1: usize = kani::any();
    kani::assume(keep1 < 16);
    delta_keep_add_roundtrip::<1, 16>(keep1);
}

#[kani::proof]
#[kani::unwind(18)]
fn c15_delta_roundtrip_escape_keep() {
    let keep1: usize = kani::any();
    kani::assume(keep1 >= 16);
    delta_keep_add_roundtrip::<0, 2>(keep1);
}

// K15-value-*: per-block value codecs (delta + VInt): what the writer serializes the reader loads,
// consuming exactly the bytes produced.
#[kani::proof]
#[kani::unwind(12)]
fn c15_value_u64_monotonic_roundtrip() {
    use value::{ValueReader, ValueWriter};
    let (a, d1, d2): (u64, u64, u64) = (kani::any(), kani::any(), kani::any());
    let n: usize = 3;
    kani::assume(a.checked_add(d1).is_some() && (a + d1).checked_add(d2).is_some());
    let vals = [a, a + d1, a + d1 + d2];
    let mut w = value::U64MonotonicValueWriter::default();
    let mut i = 0;
    while i < 3 {
        if i < n {
            w.write(&vals[i]);
        }
        i += 1;
    }
    let mut out: Vec<u8> = Vec::with_capacity(40);
    w.serialize_block(&mut out);
    let produced = out.len();
    out.push(kani::any());
    let mut r = value::U64MonotonicValueReader::default();
    match r.load(&out[..]) {
        Ok(consumed) => assert!(consumed == produced),
        Err(e) => {
            std::mem::forget(e);
            panic!("load failed");
        }
    }
    let mut i = 0;
    while i < 3 {
        if i < n {
            assert!(*r.value(i) == vals[i]);
        }
        i += 1;
    }
    kani::cover!(n == 3 && d2 > 1 << 40);
    std::mem::forget(r);
    std::mem::forget(w);
}

#[kani::proof]
#[kani::unwind(12)]
fn c15_value_range_roundtrip() {
    use value::{ValueReader, ValueWriter};
    let (a, d1, d2): (u64, u64, u64) = (kani::any(), kani::any(), kani::any());
    let n: usize = 2;
    kani::assume(a.checked_add(d1).is_some() && (a + d1).checked_add(d2).is_some());
    let vals = [a..a + d1, a + d1..a + d1 + d2];
    let mut w = value::RangeValueWriter::default();
    let mut i = 0;
    while i < 2 {
        if i < n {
            w.write(&vals[i]);
        }
        i += 1;
    }
    let mut out: Vec<u8> = Vec::with_capacity(40);
    w.serialize_block(&mut out);
    let produced = out.len();
    out.push(kani::any());
    let mut r = value::RangeValueReader::default();
    match r.load(&out[..]) {
        Ok(consumed) => assert!(consumed == produced),
        Err(e) => {
            std::mem::forget(e);
            panic!("load failed");
        }
    }
    let mut i = 0;
    while i < 2 {
        if i < n {
            let got = r.value(i);
            assert!(got.start == vals[i].start && got.end == vals[i].end);
        }
        i += 1;
    }
    kani::cover!(n == 2 && d1 == 0);
    std::mem::forget(r);
    std::mem::forget(w);
}
