use super::*;
use common::BitSet;
#[kani::proof]
#[kani::unwind(12)]
fn probe_alive_codec() {
    const N: u32 = 70;
    let mut bs = BitSet::with_max_value_and_full(N);
    let d1: u32 = kani::any();
    let d2: u32 = kani::any();
    kani::assume(d1 < N && d2 < N);
    bs.remove(d1);
    bs.remove(d2);
    let mut buf: Vec<u8> = Vec::with_capacity(64);
    match write_alive_bitset(&bs, &mut buf) { Ok(()) => {}, Err(e) => { std::mem::forget(e); panic!() } }
    let alive = AliveBitSet::open(OwnedBytes::new(buf));
    let q: u32 = kani::any();
    kani::assume(q < N);
    assert_eq!(alive.is_alive(q), q != d1 && q != d2);
    assert_eq!(alive.num_alive_docs(), if d1 == d2 { 69 } else { 68 });
    std::mem::forget(alive); std::mem::forget(bs);
}
