use super::*;
use crate::postings::compression::{BlockDecoder, BlockEncoder};

#[kani::proof]
#[kani::unwind(6)]
fn probe_skip_roundtrip() {
    let last1: u32 = kani::any();
    let last2: u32 = kani::any();
    kani::assume(last1 < last2 && last2 < TERMINATED);
    let nb1: u8 = kani::any();
    let nb2: u8 = kani::any();
    let tb1: u8 = kani::any();
    let tb2: u8 = kani::any();
    kani::assume(nb1 < 32 && nb2 < 32 && tb1 <= 32 && tb2 <= 32);
    let ts1: u32 = kani::any();
    let ts2: u32 = kani::any();
    let f1: u8 = kani::any();
    let f2: u8 = kani::any();
    let m1: u32 = kani::any();
    let m2: u32 = kani::any();
    let mut ser = SkipSerializer { buffer: Vec::with_capacity(64) };
    ser.write_doc(last1, nb1);
    ser.write_term_freq(tb1);
    ser.write_total_term_freq(ts1);
    ser.write_blockwand_max(f1, m1);
    ser.write_doc(last2, nb2);
    ser.write_term_freq(tb2);
    ser.write_total_term_freq(ts2);
    ser.write_blockwand_max(f2, m2);
    let tail: u32 = kani::any();
    kani::assume(tail < 128);
    let doc_freq = 256 + tail;
    let data = OwnedBytes::new(ser.buffer);
    let mut rd = SkipReader::new(data, doc_freq, IndexRecordOption::WithFreqsAndPositions);
    assert!(rd.last_doc_in_block() == last1);
    assert!(rd.byte_offset() == 0 && rd.position_offset() == 0);
    match rd.block_info() {
        BlockInfo::BitPacked { doc_num_bits, strict_delta_encoded, tf_num_bits, tf_sum, block_wand_fieldnorm_id, block_wand_term_freq } => {
            assert!(doc_num_bits == nb1 && strict_delta_encoded && tf_num_bits == tb1 && tf_sum == ts1 && block_wand_fieldnorm_id == f1);
            assert!(block_wand_term_freq >= m1);
        }
        _ => panic!(),
    }
    let target: u32 = kani::any();
    rd.seek(target);
    if target <= last1 { assert!(rd.last_doc_in_block() == last1); }
    else if target <= last2 {
        assert!(rd.last_doc_in_block() == last2);
        assert!(rd.byte_offset() == compressed_block_size(nb1 + tb1));
        assert!(rd.position_offset() == ts1 as u64);
        assert!(rd.remaining_docs() == 128 + tail);
    } else {
        assert!(rd.last_doc_in_block() == TERMINATED);
        assert!(rd.position_offset() == ts1 as u64 + ts2 as u64);
        assert!(rd.remaining_docs() == tail);
        assert!(rd.block_info() == BlockInfo::VInt { num_docs: tail });
    }
    std::mem::forget(rd);
}

#[kani::proof]
#[kani::unwind(130)]
fn probe_block_codec() {
    let deltas: [u32; 128] = kani::any();
    let offset: u32 = kani::any();
    let mut block = [0u32; 128];
    let mut prev = offset as u64;
    let mut i = 0;
    while i < 128 {
        kani::assume(deltas[i] < (1 << 20));
        let v = prev + 1 + deltas[i] as u64;
        kani::assume(v < TERMINATED as u64);
        block[i] = v as u32;
        prev = v;
        i += 1;
    }
    let mut enc = BlockEncoder::new();
    let (num_bits, data) = enc.compress_block_sorted(&block, offset);
    let mut dec = BlockDecoder::default();
    let consumed = dec.uncompress_block_sorted(data, offset, num_bits, true);
    assert!(consumed == data.len());
    let j: usize = kani::any();
    kani::assume(j < 128);
    assert!(dec.output(j) == block[j]);
}
