use crate::column_values::{serialize_u64_based_column_values, load_u64_based_column_values, CodecType};
use common::OwnedBytes;

fn ok<T>(r: std::io::Result<T>) -> T {
    match r { Ok(v) => v, Err(e) => { std::mem::forget(e); panic!("io") } }
}

#[kani::proof]
#[kani::unwind(24)]
fn probe_bitpacked_codec() {
    let base: u64 = kani::any();
    let s: [u16; 3] = kani::any();
    kani::assume(base < u64::MAX - (1 << 20));
    kani::assume(s[0] < 1 << 8 && s[1] < 1 << 8 && s[2] < 1 << 8);
    let vals: [u64; 3] = [base + s[0] as u64, base + s[1] as u64, base + s[2] as u64];
    let mut buf: Vec<u8> = Vec::with_capacity(128);
    ok(serialize_u64_based_column_values::<u64>(&&vals[..], &[CodecType::Bitpacked], &mut buf));
    let col = ok(load_u64_based_column_values::<u64>(OwnedBytes::new(buf)));
    let i: u32 = kani::any();
    kani::assume(i < 3);
    assert!(col.get_val(i) == vals[i as usize]);
    assert!(col.min_value() <= vals[i as usize] && vals[i as usize] <= col.max_value());
    std::mem::forget(col);
}
