use super::*;

fn sorted3(len: usize) -> [u32; 3] {
    let a: [u32; 3] = kani::any();
    if len > 1 { kani::assume(a[0] < a[1]); }
    if len > 2 { kani::assume(a[1] < a[2]); }
    a
}

#[kani::proof]
#[kani::unwind(8)]
fn probe_phrase_kernels() {
    let ll: usize = kani::any();
    let rl: usize = kani::any();
    kani::assume(ll <= 3 && rl <= 3);
    let l = sorted3(ll);
    let r = sorted3(rl);
    let slop: u32 = kani::any();
    // reference
    let mut exists = false;
    let mut exists_slop = false;
    let mut count = 0usize;
    let mut i = 0;
    while i < 3 {
        let mut j = 0;
        while j < 3 {
            if i < ll && j < rl {
                if l[i] == r[j] { exists = true; count += 1; }
                if l[i].abs_diff(r[j]) <= slop { exists_slop = true; }
            }
            j += 1;
        }
        i += 1;
    }
    assert_eq!(intersection_exists(&l[..ll], &r[..rl]), exists);
    assert_eq!(intersection_count(&l[..ll], &r[..rl]), count);
    assert_eq!(intersection_exists_with_slop(&l[..ll], &r[..rl], slop), exists_slop);
}
