use super::union::SimpleUnion;
use super::*;
use crate::docset::{DocSet, TERMINATED};
use crate::query::score_combiner::DoNothingCombiner;
use crate::query::disjunction::Disjunction;
use crate::DocId;

const N: usize = 3;
#[derive(Clone, Copy)]
struct Arr { docs: [DocId; N], len: usize, cur: usize }
impl Arr {
    fn any(max_doc: DocId) -> Arr {
        let docs: [DocId; N] = kani::any();
        let len: usize = kani::any();
        kani::assume(len <= N);
        if len > 1 { kani::assume(docs[0] < docs[1]); }
        if len > 2 { kani::assume(docs[1] < docs[2]); }
        if len > 0 { kani::assume(docs[len - 1] < max_doc); }
        Arr { docs, len, cur: 0 }
    }
    fn contains(&self, d: DocId) -> bool {
        (self.len > 0 && self.docs[0] == d) || (self.len > 1 && self.docs[1] == d) || (self.len > 2 && self.docs[2] == d)
    }
}
impl DocSet for Arr {
    fn advance(&mut self) -> DocId { if self.cur < self.len { self.cur += 1; } self.doc() }
    fn doc(&self) -> DocId { if self.cur >= self.len { TERMINATED } else { self.docs[self.cur] } }
    fn size_hint(&self) -> u32 { self.len as u32 }
}
// first d >= target with pred(d), over candidate docs of a,b,c
fn next_where(a: &Arr, b: &Arr, c: &Arr, target: DocId, pred: impl Fn(DocId) -> bool) -> DocId {
    let mut best = TERMINATED;
    let mut i = 0;
    while i < N {
        for s in [a, b, c] {
            if i < s.len { let d = s.docs[i]; if d >= target && d < best && pred(d) { best = d; } }
        }
        i += 1;
    }
    best
}

fn drive<D: DocSet>(ds: &mut D, a: &Arr, b: &Arr, c: &Arr, pred: impl Fn(DocId) -> bool + Copy) {
    let first = ds.doc();
    assert_eq!(first, next_where(a, b, c, 0, pred));
    let t: DocId = kani::any();
    kani::assume(t >= first && t <= TERMINATED);
    let got = ds.seek(t);
    assert_eq!(got, next_where(a, b, c, t, pred));
    assert_eq!(ds.doc(), got);
    if got != TERMINATED {
        let nxt = ds.advance();
        assert_eq!(nxt, next_where(a, b, c, got + 1, pred));
    } else {
        assert_eq!(ds.advance(), TERMINATED);
    }
}

#[kani::proof]
#[kani::unwind(8)]
fn probe_exclude_prog() {
    let (a, b, c) = (Arr::any(300), Arr::any(300), Arr::any(300));
    let mut ex = Exclude::new(ConstScorer::new(a, 1.0), vec![ConstScorer::new(b, 1.0), ConstScorer::new(c, 1.0)]);
    drive(&mut ex, &a, &b, &c, |d| a.contains(d) && !b.contains(d) && !c.contains(d));
    std::mem::forget(ex);
}

#[kani::proof]
#[kani::unwind(8)]
fn probe_simple_union_prog() {
    let (a, b) = (Arr::any(300), Arr::any(300));
    let e = Arr { docs: [0; N], len: 0, cur: 0 };
    let mut u = SimpleUnion::build(vec![a, b]);
    drive(&mut u, &a, &b, &e, |d| a.contains(d) || b.contains(d));
    std::mem::forget(u);
}

#[kani::proof]
#[kani::unwind(8)]
fn probe_disjunction_prog() {
    let (a, b, c) = (Arr::any(300), Arr::any(300), Arr::any(300));
    let mut dj = Disjunction::new(
        vec![ConstScorer::new(a, 1.0), ConstScorer::new(b, 1.0), ConstScorer::new(c, 1.0)],
        DoNothingCombiner::default(), 2);
    drive(&mut dj, &a, &b, &c, |d| (a.contains(d) as u8 + b.contains(d) as u8 + c.contains(d) as u8) >= 2);
    std::mem::forget(dj);
}
