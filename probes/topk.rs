use super::*;
use crate::collector::sort_key::NaturalComparator;

// two segments, K=2: each fruit is ANY ordering of that segment's top-2
#[kani::proof]
#[kani::unwind(8)]
fn probe_merge_top_k() {
    let k0: [u8; 2] = kani::any();
    let k1: [u8; 2] = kani::any();
    let k2: [u8; 2] = kani::any();
    let swap0: bool = kani::any();
    let swap1: bool = kani::any();
    let swap2: bool = kani::any();
    // items: (key, (segment, doc)) ; docs 0 and 1 in each segment
    let mut items: [(u8, (u32, u32)); 6] = [
        (k0[0], (0, 0)), (k0[1], (0, 1)),
        (k1[0], (1, 0)), (k1[1], (1, 1)),
        (k2[0], (2, 0)), (k2[1], (2, 1)),
    ];
    if swap0 { items.swap(0, 1); }
    if swap1 { items.swap(2, 3); }
    if swap2 { items.swap(4, 5); }
    let res = merge_top_k(items.iter().copied(), 0..2, NaturalComparator);
    assert!(res.len() == 2);
    let mut r = 0;
    while r < 2 {
        let (key, addr) = res[r];
        let mut better = 0;
        let mut j = 0;
        while j < 6 {
            let (kj, aj) = items[j];
            if kj > key || (kj == key && aj < addr) { better += 1; }
            j += 1;
        }
        assert_eq!(better, r);
        r += 1;
    }
    std::mem::forget(res);
}
