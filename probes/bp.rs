use super::*;
struct Fixed { buf: [u8; 40], len: usize }
impl io::Write for Fixed {
    fn write(&mut self, data: &[u8]) -> io::Result<usize> {
        let mut i = 0;
        while i < data.len() { self.buf[self.len + i] = data[i]; i += 1; }
        self.len += data.len();
        Ok(data.len())
    }
    fn flush(&mut self) -> io::Result<()> { Ok(()) }
}
fn rt<const BITS: u8>() {
    let vals: [u64; 4] = kani::any();
    let mask = if BITS == 64 { !0u64 } else { (1u64 << BITS) - 1 };
    let mut out = Fixed { buf: [0; 40], len: 0 };
    let mut bp = BitPacker::new();
    let mut i = 0;
    while i < 4 {
        kani::assume(vals[i] <= mask);
        match bp.write(vals[i], BITS, &mut out) { Ok(()) => {}, Err(e) => { std::mem::forget(e); panic!() } }
        i += 1;
    }
    match bp.close(&mut out) { Ok(()) => {}, Err(e) => { std::mem::forget(e); panic!() } }
    assert!(out.len == (4 * BITS as usize + 7) / 8);
    let unp = BitUnpacker::new(BITS);
    let j: u32 = kani::any();
    kani::assume(j < 4);
    assert_eq!(unp.get(j, &out.buf[..out.len]), vals[j as usize]);
}
#[kani::proof]
#[kani::unwind(10)]
fn probe_bp_9() { rt::<9>(); }
#[kani::proof]
#[kani::unwind(10)]
fn probe_bp_33() { rt::<33>(); }
#[kani::proof]
#[kani::unwind(10)]
fn probe_bp_64() { rt::<64>(); }
