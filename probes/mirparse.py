import re, sys, collections
src = open('/tmp/mirprobe.mir').read()
# split functions: lines starting with "fn " at col 0 until a line "}" at col 0
funcs = {}
for m in re.finditer(r'^fn (.+?) \{\n(.*?)^\}\n', src, re.S | re.M):
    head, body = m.group(1), m.group(2)
    name = head.split('(')[0]
    funcs.setdefault(name, []).append((head, body))
print(len(funcs), 'functions')
def parse(body):
    blocks = {}
    for bm in re.finditer(r'^    (bb\d+)( \(cleanup\))?: \{\n(.*?)^    \}\n', body, re.S | re.M):
        bb, cleanup, content = bm.group(1), bool(bm.group(2)), bm.group(3)
        lines = [l.strip() for l in content.strip().split('\n')]
        term = lines[-1]
        succs = re.findall(r'(?:return|success|otherwise|unwind|\d+|drop|goto)\s*(?::|->)\s*(bb\d+)', term)
        succs = re.findall(r'bb\d+', term)
        call = None
        cm = re.match(r'(_\d+) = (.+?)\((.*)\) -> \[', term)
        if cm: call = (cm.group(1), cm.group(2), cm.group(3))
        blocks[bb] = dict(cleanup=cleanup, stmts=lines[:-1], term=term, succs=succs, call=call)
    return blocks
target = sys.argv[1]
for name in funcs:
    if target in name:
        for head, body in funcs[name]:
            b = parse(body)
            print('==', name, len(b), 'blocks')
            for bb, d in b.items():
                if d['cleanup']: continue
                t = d['term']
                kind = 'call' if d['call'] else t.split('(')[0].split(' ')[0]
                print(' ', bb, kind, (d['call'][1][:90] if d['call'] else t[:90]), '->', d['succs'])
