use super::*;
#[kani::proof]
#[kani::unwind(258)]
fn probe_bm25_score() {
    let idf: f32 = kani::any();
    let avg: f32 = kani::any();
    kani::assume(idf >= 0.0 && idf <= 100.0);
    kani::assume(avg >= 0.001 && avg <= 1.0e9);
    let w = Bm25Weight::new_without_explain(idf, avg);
    let id: u8 = kani::any();
    let tf: u32 = kani::any();
    kani::assume(tf >= 1);
    let s = w.score(id, tf);
    let f = w.tf_factor(id, tf);
    assert!(f >= 0.0 && f <= 1.0);
    assert!(s == w.weight * f);
    assert!(s <= w.max_score() || id != 255);
    let b = w.boost_by(2.0);
    assert!(b.weight == w.weight * 2.0);
    std::mem::forget(w); std::mem::forget(b);
}
