use super::*;
use std::io::Write;

struct PartialSink { buf: [u8; 8], len: usize }
impl Write for PartialSink {
    fn write(&mut self, data: &[u8]) -> io::Result<usize> {
        let n: usize = kani::any();
        kani::assume(n >= 1 && n <= data.len());
        let mut i = 0;
        while i < n { if self.len < 8 { self.buf[self.len] = data[i]; } self.len += 1; i += 1; }
        Ok(n)
    }
    fn flush(&mut self) -> io::Result<()> { Ok(()) }
}
impl TerminatingWrite for PartialSink {
    fn terminate_ref(&mut self, _: AntiCallToken) -> io::Result<()> { Ok(()) }
}
fn stub_hasher_new() -> Hasher { Hasher::internal_new_baseline(0, 0) }

#[kani::proof]
#[kani::unwind(10)]
#[kani::stub(crc32fast::Hasher::new, stub_hasher_new)]
fn probe_footer_hashing() {
    let data: [u8; 4] = kani::any();
    let mut proxy = FooterProxy::new(PartialSink { buf: [0; 8], len: 0 });
    let n1 = match proxy.write(&data[..]) { Ok(n) => n, Err(e) => { std::mem::forget(e); panic!() } };
    let mut total = n1;
    if n1 < 4 {
        let n2 = match proxy.write(&data[n1..]) { Ok(n) => n, Err(e) => { std::mem::forget(e); panic!() } };
        total += n2;
    }
    let crc = proxy.hasher.take().unwrap().finalize();
    let sink = proxy.writer.take().unwrap();
    assert!(sink.len == total);
    let mut h = Hasher::internal_new_baseline(0, 0);
    h.update(&sink.buf[..total]);
    assert!(h.finalize() == crc);
    let mut k = 0;
    while k < total { assert!(sink.buf[k] == data[k]); k += 1; }
}
