use std::io::{self, Write};
use std::path::{Path, PathBuf};
use std::sync::atomic::{AtomicU32, AtomicBool, Ordering};
use std::sync::Arc;

use crate::directory::error::{DeleteError, OpenReadError, OpenWriteError};
use crate::directory::{
    AntiCallToken, Directory, FileHandle, TerminatingWrite, WatchCallback, WatchHandle, WritePtr, INDEX_WRITER_LOCK,
};

// --- a logging, fault injecting directory -----------------------------------------------
const EV_SYNC: u32 = 1;
const EV_AWRITE: u32 = 2;

#[derive(Clone, Debug)]
struct LogDir {
    // packed log: 4 bits per event, up to 8 events
    log: Arc<AtomicU32>,
    n: Arc<AtomicU32>,
    fail_at: u32, // op index that fails (u32::MAX = none)
    lock_held: Arc<AtomicBool>,
}

impl LogDir {
    fn new(fail_at: u32) -> LogDir {
        LogDir {
            log: Arc::new(AtomicU32::new(0)),
            n: Arc::new(AtomicU32::new(0)),
            fail_at,
            lock_held: Arc::new(AtomicBool::new(false)),
        }
    }
    fn push(&self, ev: u32) -> bool {
        let n = self.n.load(Ordering::Relaxed);
        let fails = n == self.fail_at;
        if !fails && n < 8 {
            let l = self.log.load(Ordering::Relaxed);
            self.log.store(l | (ev << (4 * n)), Ordering::Relaxed);
        }
        self.n.store(n + 1, Ordering::Relaxed);
        !fails
    }
    fn ev(&self, i: u32) -> u32 {
        (self.log.load(Ordering::Relaxed) >> (4 * i)) & 0xf
    }
}

struct LockFileWriter(Arc<AtomicBool>);
impl Write for LockFileWriter {
    fn write(&mut self, buf: &[u8]) -> io::Result<usize> { Ok(buf.len()) }
    fn flush(&mut self) -> io::Result<()> { Ok(()) }
}
impl TerminatingWrite for LockFileWriter {
    fn terminate_ref(&mut self, _: AntiCallToken) -> io::Result<()> { Ok(()) }
}

impl Directory for LogDir {
    fn get_file_handle(&self, path: &Path) -> Result<Arc<dyn FileHandle>, OpenReadError> {
        Err(OpenReadError::FileDoesNotExist(PathBuf::from(path)))
    }
    fn delete(&self, _path: &Path) -> Result<(), DeleteError> {
        self.lock_held.store(false, Ordering::Relaxed);
        Ok(())
    }
    fn exists(&self, _path: &Path) -> Result<bool, OpenReadError> { Ok(false) }
    fn open_write(&self, path: &Path) -> Result<WritePtr, OpenWriteError> {
        if self.lock_held.load(Ordering::Relaxed) {
            return Err(OpenWriteError::FileAlreadyExists(PathBuf::from(path)));
        }
        self.lock_held.store(true, Ordering::Relaxed);
        Ok(io::BufWriter::new(Box::new(LockFileWriter(self.lock_held.clone()))))
    }
    fn atomic_read(&self, path: &Path) -> Result<Vec<u8>, OpenReadError> {
        Err(OpenReadError::FileDoesNotExist(PathBuf::from(path)))
    }
    fn atomic_write(&self, _path: &Path, _data: &[u8]) -> io::Result<()> {
        if self.push(EV_AWRITE) { Ok(()) } else { Err(io::Error::from(io::ErrorKind::Other)) }
    }
    fn sync_directory(&self) -> io::Result<()> {
        if self.push(EV_SYNC) { Ok(()) } else { Err(io::Error::from(io::ErrorKind::Other)) }
    }
    fn watch(&self, _watch_callback: WatchCallback) -> crate::Result<WatchHandle> {
        Ok(WatchHandle::empty())
    }
}

fn stub_current() -> std::thread::Thread { panic!("thread::current stubbed") }
fn stub_park() { panic!("thread::park stubbed") }
fn stub_hasher_new() -> crc32fast::Hasher { crc32fast::Hasher::internal_new_baseline(0, 0) }

#[kani::proof]
#[kani::unwind(20)]
#[kani::stub(std::thread::current::current, stub_current)]
#[kani::stub(std::thread::functions::park, stub_park)]
fn probe_lock() {
    let dir = LogDir::new(u32::MAX);
    let l1 = dir.acquire_lock(&INDEX_WRITER_LOCK);
    assert!(l1.is_ok());
    let l2 = dir.acquire_lock(&INDEX_WRITER_LOCK);
    assert!(l2.is_err());
    std::mem::forget(l2);
    drop(l1);
    let l3 = dir.acquire_lock(&INDEX_WRITER_LOCK);
    assert!(l3.is_ok());
    std::mem::forget(l3);
}

#[kani::proof]
#[kani::unwind(24)]
#[kani::stub(std::thread::current::current, stub_current)]
#[kani::stub(std::thread::functions::park, stub_park)]
fn probe_save_metas() {
    use crate::index::{IndexMeta, IndexSettings};
    use crate::schema::Schema;
    let fail_at: u32 = kani::any();
    kani::assume(fail_at <= 2 || fail_at == u32::MAX);
    let dir = LogDir::new(fail_at);
    let metas = IndexMeta {
        index_settings: IndexSettings::default(),
        segments: Vec::new(),
        schema: Schema::builder().build(),
        opstamp: 7,
        payload: None,
    };
    let res = crate::indexer::segment_updater::save_metas(&metas, &dir);
    match res {
        Ok(()) => {
            assert!(dir.ev(0) == EV_SYNC);
            assert!(dir.ev(1) == EV_AWRITE);
        }
        Err(e) => {
            std::mem::forget(e);
            // meta.json must be untouched: no successful atomic write logged
            assert!(dir.ev(0) != EV_AWRITE && dir.ev(1) != EV_AWRITE);
        }
    }
    std::mem::forget(metas);
}

// --- footer proxy ---------------------------------------------------------------------------
struct PartialWriter {
    buf: [u8; 16],
    len: usize,
    terminated: bool,
}
impl Write for PartialWriter {
    fn write(&mut self, data: &[u8]) -> io::Result<usize> {
        let n: usize = kani::any();
        kani::assume(n >= 1 && n <= data.len());
        let mut i = 0;
        while i < n {
            if self.len < 16 { self.buf[self.len] = data[i]; }
            self.len += 1;
            i += 1;
        }
        Ok(n)
    }
    fn flush(&mut self) -> io::Result<()> { Ok(()) }
}
impl TerminatingWrite for &mut PartialWriter {
    fn terminate_ref(&mut self, _: AntiCallToken) -> io::Result<()> { self.terminated = true; Ok(()) }
}

#[kani::proof]
#[kani::unwind(20)]
#[kani::stub(crc32fast::Hasher::new, stub_hasher_new)]
fn probe_crc() {
    let data: [u8; 3] = kani::any();
    let mut h = crc32fast::Hasher::new();
    h.update(&data[..2]);
    h.update(&data[2..]);
    let a = h.finalize();
    let mut h2 = crc32fast::Hasher::new();
    h2.update(&data);
    assert_eq!(a, h2.finalize());
}

#[kani::proof]
#[kani::unwind(40)]
#[kani::stub(std::thread::current::current, stub_current)]
#[kani::stub(std::thread::functions::park, stub_park)]
#[kani::stub(crc32fast::Hasher::new, stub_hasher_new)]
fn probe_footer_proxy() {
    use crate::directory::footer::FooterProxy;
    let mut sink = PartialWriter { buf: [0u8; 16], len: 0, terminated: false };
    let data: [u8; 4] = kani::any();
    {
        let mut proxy = FooterProxy::new(&mut sink);
        let mut off = 0usize;
        // write_all semantic implemented by hand to avoid io::Error paths
        while off < 4 {
            match proxy.write(&data[off..]) {
                Ok(n) => off += n,
                Err(e) => { std::mem::forget(e); panic!() }
            }
        }
        match proxy.terminate() { Ok(()) => {}, Err(e) => { std::mem::forget(e); panic!() } }
    }
    assert!(sink.terminated);
    // body is intact
    assert!(sink.buf[0] == data[0] && sink.buf[3] == data[3]);
    assert!(sink.len > 4 + 8);
}
