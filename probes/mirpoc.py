import re, sys
from z3 import *
src = open(sys.argv[1] if len(sys.argv)>1 else '/tmp/mirprobe.mir').read()
funcs = {}
for m in re.finditer(r'^fn (.+?) \{\n(.*?)^\}\n', src, re.S | re.M):
    head, body = m.group(1), m.group(2)
    name = head.split('(_1')[0].split('()')[0]
    funcs.setdefault(name, (head, body))

def parse(body):
    blocks = {}
    for bm in re.finditer(r'^    (bb\d+)( \(cleanup\))?: \{\n(.*?)^    \}\n', body, re.S | re.M):
        bb, cleanup, content = bm.group(1), bool(bm.group(2)), bm.group(3)
        lines = [l.strip() for l in content.strip().split('\n')]
        blocks[bb] = dict(cleanup=cleanup, stmts=lines[:-1], term=lines[-1])
    return blocks

def splitcall(t):
    m = re.match(r'(_\d+) = (.*) -> \[return: (bb\d+)', t)
    if not m: return None
    dst, expr, ret = m.groups()
    if not expr.endswith(')'): return None
    depth = 0
    for i in range(len(expr) - 1, -1, -1):
        if expr[i] == ')': depth += 1
        elif expr[i] == '(':
            depth -= 1
            if depth == 0:
                return dst, expr[:i], expr[i + 1:-1], ret
    return None

def analyse(fname, events):
    head, body = funcs[fname]
    B = parse(body)
    order = list(B.keys())
    # symbolic tags per local
    tags = {}
    def tag(loc):
        if loc not in tags: tags[loc] = Int('tag_' + fname.split('::')[-1] + loc)
        return tags[loc]
    s = Solver()
    reach = {bb: Bool('reach_' + bb) for bb in B}
    # state: synced (bool) at block entry / exit, awrite_bad (bool)
    synced_in = {bb: Bool('synced_in_' + bb) for bb in B}
    bad_in = {bb: Bool('bad_in_' + bb) for bb in B}
    synced_out, bad_out, edges = {}, {}, []
    for bb, d in B.items():
        if d['cleanup']: continue
        t = d['term']
        s_out, b_out = synced_in[bb], bad_in[bb]
        # statements: discriminant
        for st in d['stmts']:
            m = re.match(r'(_\d+) = discriminant\((_\d+)\);', st)
            if m: s.add(tag(m.group(1)) == tag(m.group(2)))
        cm = splitcall(t)
        if cm:
            dst, callee, args, ret = cm
            ev = None
            for pat, e in events.items():
                if pat in callee: ev = e
            if ev == 'SYNC':
                # result tag symbolic: 0 Ok, 1 Err ; synced only if Ok
                s.add(Or(tag(dst) == 0, tag(dst) == 1))
                s_out = If(tag(dst) == 0, True, s_out)
            elif ev == 'AWRITE':
                b_out = Or(b_out, Not(s_out))
                s.add(Or(tag(dst) == 0, tag(dst) == 1))
            elif 'as Try>::branch' in callee:
                am = re.match(r'(?:move|copy) (_\d+)', args)
                if am: s.add(tag(dst) == tag(am.group(1)))
            edges.append((bb, ret, BoolVal(True)))
        elif t.startswith('switchInt'):
            m = re.match(r'switchInt\((?:move|copy) (_\d+)\) -> \[(.*)\];', t)
            loc, arms = m.group(1), m.group(2)
            seen = []
            for arm in arms.split(', '):
                k, tgt = arm.split(': ')
                if k == 'otherwise':
                    cond = And([tag(loc) != int(v) for v in seen]) if seen else BoolVal(True)
                else:
                    cond = tag(loc) == int(k); seen.append(k)
                edges.append((bb, tgt, cond))
        elif t.startswith('goto'):
            edges.append((bb, re.search(r'bb\d+', t).group(0), BoolVal(True)))
        elif t.startswith('drop') or t.startswith('assert'):
            edges.append((bb, re.search(r'(?:return|success): (bb\d+)', t).group(1), BoolVal(True)))
        synced_out[bb], bad_out[bb] = s_out, b_out
    preds = {}
    for (p, q, c) in edges: preds.setdefault(q, []).append((p, c))
    taken = {}
    for bb in B:
        if B[bb]['cleanup']: s.add(Not(reach[bb])); continue
        if bb == 'bb0':
            s.add(reach[bb]); s.add(Not(synced_in[bb])); s.add(Not(bad_in[bb])); continue
        ps = preds.get(bb, [])
        tk = [Bool(f'e_{p}_{bb}_{i}') for i, (p, c) in enumerate(ps)]
        for e, (p, c) in zip(tk, ps):
            s.add(e == And(reach[p], c, *[Not(o) for o in taken.get(p, [])]))  # placeholder
        s.add(reach[bb] == Or(tk) if tk else Not(reach[bb]))
        for e, (p, c) in zip(tk, ps):
            s.add(Implies(e, And(synced_in[bb] == synced_out[p], bad_in[bb] == bad_out[p])))
        # at most one incoming edge taken (single path)
        s.add(AtMost(*tk, 1)) if tk else None
    # each reached block takes exactly one outgoing edge: encode via successor reach exclusivity
    succs = {}
    for (p, q, c) in edges: succs.setdefault(p, []).append(q)
    for p, qs in succs.items():
        qs = list(dict.fromkeys(qs))
        s.add(Implies(reach[p], AtMost(*[reach[q] for q in qs], 1)))
    rets = [bb for bb, d in B.items() if d['term'].startswith('return')]
    viol = Or([And(reach[bb], bad_in[bb]) for bb in rets])
    s.add(viol)
    r = s.check()
    print(fname, '->', r)
    if r == sat:
        m = s.model()
        print('  path:', [(bb, m.eval(synced_in[bb]), m.eval(bad_in[bb])) for bb in order if is_true(m.eval(reach[bb]))]); print({k: m.eval(v) for k, v in tags.items()})

ev = {'Directory>::sync_directory': 'SYNC', 'Directory>::atomic_write': 'AWRITE'}
analyse('save_metas', ev)
