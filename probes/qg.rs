use super::*;
use crate::user_input_ast::{Delimiter, UserInputLiteral};

fn leaf(i: u32) -> UserInputAst {
    UserInputAst::Leaf(Box::new(UserInputLeaf::Literal(UserInputLiteral {
        field_name: None,
        phrase: String::new(),
        delimiter: Delimiter::None,
        slop: i,
        prefix: false,
    })))
}

fn eval(ast: &UserInputAst, truth: &[bool; 4], depth: u32) -> bool {
    if depth == 0 { kani::assume(false); }
    match ast {
        UserInputAst::Leaf(l) => match &**l {
            UserInputLeaf::Literal(lit) => truth[lit.slop as usize],
            _ => false,
        },
        UserInputAst::Boost(inner, _) => eval(inner, truth, depth - 1),
        UserInputAst::Clause(children) => {
            let mut has_must = false;
            let mut all_must = true;
            let mut any_should = false;
            let mut has_should = false;
            let mut any_not = false;
            for (occ, child) in children.iter() {
                let v = eval(child, truth, depth - 1);
                match occ {
                    Some(Occur::Must) => { has_must = true; all_must &= v; }
                    Some(Occur::MustNot) => { any_not |= v; }
                    Some(Occur::Should) | None => { has_should = true; any_should |= v; }
                }
            }
            if any_not { return false; }
            if has_must { all_must } else { has_should && any_should }
        }
    }
}

#[kani::proof]
#[kani::unwind(6)]
fn probe_fold_and_or() {
    let ops: [bool; 3] = kani::any(); // true = AND, false = OR
    let truth: [bool; 4] = kani::any();
    let op = |b: bool| if b { BinaryOperand::And } else { BinaryOperand::Or };
    let mut others: Vec<(Option<BinaryOperand>, Option<Occur>, UserInputAst)> = Vec::with_capacity(3);
    others.push((Some(op(ops[0])), None, leaf(1)));
    others.push((Some(op(ops[1])), None, leaf(2)));
    others.push((Some(op(ops[2])), None, leaf(3)));
    let ast = match aggregate_binary_expressions((None, leaf(0)), others) {
        Ok(a) => a,
        Err(e) => { std::mem::forget(e); panic!("unexpected error") }
    };
    let got = eval(&ast, &truth, 4);
    // reference: AND binds tighter than OR
    let mut acc = false;
    let mut group = truth[0];
    let mut i = 0;
    while i < 3 {
        if ops[i] { group = group && truth[i + 1]; } else { acc = acc || group; group = truth[i + 1]; }
        i += 1;
    }
    acc = acc || group;
    assert_eq!(got, acc);
    std::mem::forget(ast);
}

#[kani::proof]
#[kani::unwind(4)]
fn probe_fold_and_or3() {
    let ops: [bool; 2] = kani::any();
    let t3: [bool; 3] = kani::any();
    let truth: [bool; 4] = [t3[0], t3[1], t3[2], false];
    let op = |b: bool| if b { BinaryOperand::And } else { BinaryOperand::Or };
    let mut others: Vec<(Option<BinaryOperand>, Option<Occur>, UserInputAst)> = Vec::with_capacity(2);
    others.push((Some(op(ops[0])), None, leaf(1)));
    others.push((Some(op(ops[1])), None, leaf(2)));
    let ast = match aggregate_binary_expressions((None, leaf(0)), others) {
        Ok(a) => a,
        Err(e) => { std::mem::forget(e); panic!("unexpected error") }
    };
    let got = eval(&ast, &truth, 3);
    let mut acc = false;
    let mut group = truth[0];
    let mut i = 0;
    while i < 2 {
        if ops[i] { group = group && truth[i + 1]; } else { acc = acc || group; group = truth[i + 1]; }
        i += 1;
    }
    acc = acc || group;
    assert_eq!(got, acc);
    std::mem::forget(ast);
}

#[kani::proof]
#[kani::unwind(3)]
fn probe_fold_and_or2() {
    let is_and: bool = kani::any();
    let t0: bool = kani::any();
    let t1: bool = kani::any();
    let truth: [bool; 4] = [t0, t1, false, false];
    let mut others: Vec<(Option<BinaryOperand>, Option<Occur>, UserInputAst)> = Vec::with_capacity(1);
    others.push((Some(if is_and { BinaryOperand::And } else { BinaryOperand::Or }), None, leaf(1)));
    let ast = match aggregate_binary_expressions((None, leaf(0)), others) {
        Ok(a) => a,
        Err(e) => { std::mem::forget(e); panic!("unexpected error") }
    };
    let got = eval(&ast, &truth, 3);
    assert_eq!(got, if is_and { t0 && t1 } else { t0 || t1 });
    std::mem::forget(ast);
}
