use super::*;
use crate::query::{EmptyScorer, Explanation, Scorer, Weight};
use crate::{DocId, Score};

const MAXDOC: u32 = 4;

struct MaskWeight {
    mask: u8,
}
impl Weight for MaskWeight {
    fn scorer(&self, _reader: &SegmentReader, _boost: Score) -> crate::Result<Box<dyn Scorer>> {
        Ok(Box::new(EmptyScorer))
    }
    fn explain(&self, _reader: &SegmentReader, _doc: DocId) -> crate::Result<Explanation> {
        unimplemented!()
    }
    fn for_each_no_score(
        &self,
        _reader: &SegmentReader,
        callback: &mut dyn FnMut(&[DocId]),
    ) -> crate::Result<()> {
        let mut buf = [0u32; MAXDOC as usize];
        let mut n = 0usize;
        let mut d = 0u32;
        while d < MAXDOC {
            if (self.mask >> d) & 1 == 1 {
                buf[n] = d;
                n += 1;
            }
            d += 1;
        }
        callback(&buf[..n]);
        Ok(())
    }
}

#[kani::proof]
#[kani::unwind(8)]
fn probe_deleted_bitset() {
    // two delete operations with increasing symbolic opstamps
    let o1: u64 = kani::any();
    let o2: u64 = kani::any();
    kani::assume(o1 < o2);
    let m1: u8 = kani::any();
    let m2: u8 = kani::any();
    kani::assume(m1 < 16 && m2 < 16);
    let doc_opstamps: [u64; MAXDOC as usize] = kani::any();
    let target: u64 = kani::any();

    let queue = DeleteQueue::default();
    let mut cursor = queue.cursor();
    queue.push(DeleteOperation { opstamp: o1, target: Box::new(MaskWeight { mask: m1 }) });
    queue.push(DeleteOperation { opstamp: o2, target: Box::new(MaskWeight { mask: m2 }) });

    let mut alive = BitSet::with_max_value_and_full(MAXDOC);
    // the reader is opaque to compute_deleted_bitset and to MaskWeight: never dereferenced
    let reader: &SegmentReader = unsafe { &*std::ptr::NonNull::<SegmentReader>::dangling().as_ptr() };
    let mapping = DocToOpstampMapping::WithMap(&doc_opstamps);
    let res = compute_deleted_bitset(&mut alive, reader, &mut cursor, &mapping, target);
    let changed = match res { Ok(c) => c, Err(e) => { std::mem::forget(e); panic!() } };

    let mut d = 0u32;
    let mut any_dead = false;
    while d < MAXDOC {
        let dead1 = o1 <= target && (m1 >> d) & 1 == 1 && doc_opstamps[d as usize] < o1;
        let dead2 = o2 <= target && (m2 >> d) & 1 == 1 && doc_opstamps[d as usize] < o2;
        assert_eq!(alive.contains(d), !(dead1 || dead2));
        any_dead |= dead1 || dead2;
        d += 1;
    }
    if any_dead { assert!(changed); }
    // cursor is left on the first operation beyond the target
    let next = cursor.get().map(|op| op.opstamp);
    if target < o1 { assert!(next == Some(o1)); }
    else if target < o2 { assert!(next == Some(o2)); }
    else { assert!(next.is_none()); }
    std::mem::forget(cursor);
    std::mem::forget(queue);
}

#[kani::proof]
#[kani::unwind(4)]
fn probe_deleted_bitset_min() {
    let o1: u64 = kani::any();
    let m1: u8 = kani::any();
    kani::assume(m1 < 4);
    let doc_opstamps: [u64; 2] = kani::any();
    let target: u64 = kani::any();
    let queue = DeleteQueue::default();
    let mut cursor = queue.cursor();
    queue.push(DeleteOperation { opstamp: o1, target: Box::new(MaskWeight { mask: m1 }) });
    let mut alive = BitSet::with_max_value_and_full(2);
    let reader: &SegmentReader = unsafe { &*std::ptr::NonNull::<SegmentReader>::dangling().as_ptr() };
    let mapping = DocToOpstampMapping::WithMap(&doc_opstamps);
    let res = compute_deleted_bitset(&mut alive, reader, &mut cursor, &mapping, target);
    match res { Ok(_) => {}, Err(e) => { std::mem::forget(e); panic!() } };
    let mut d = 0u32;
    while d < 2 {
        let dead1 = o1 <= target && (m1 >> d) & 1 == 1 && doc_opstamps[d as usize] < o1;
        assert_eq!(alive.contains(d), !dead1);
        d += 1;
    }
    std::mem::forget(cursor);
    std::mem::forget(queue);
    std::mem::forget(alive);
}

#[kani::proof]
#[kani::unwind(4)]
fn probe_dq_only() {
    let o1: u64 = kani::any();
    let queue = DeleteQueue::default();
    let mut cursor = queue.cursor();
    queue.push(DeleteOperation { opstamp: o1, target: Box::new(MaskWeight { mask: 1 }) });
    let got = cursor.get().map(|op| op.opstamp);
    assert!(got == Some(o1));
    std::mem::forget(cursor);
    std::mem::forget(queue);
}

#[kani::proof]
#[kani::unwind(4)]
fn probe_bitset_only() {
    let n: u32 = kani::any();
    kani::assume(n <= 4);
    let mut alive = BitSet::with_max_value_and_full(4);
    let d: u32 = kani::any();
    kani::assume(d < 4);
    alive.remove(d);
    assert!(!alive.contains(d));
    assert!(alive.len() == 3);
    std::mem::forget(alive);
}
