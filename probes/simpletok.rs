use super::*;
use crate::tokenizer::{TokenStream, Tokenizer};

// over-approximation: classification is an arbitrary function of the char's low bits
static mut CLASS: u32 = 0;
fn stub_is_alnum(c: char) -> bool {
    unsafe { (CLASS >> ((c as u32) & 31)) & 1 == 1 }
}

#[kani::proof]
#[kani::unwind(5)]
#[kani::stub(char::is_alphanumeric, stub_is_alnum)]
fn probe_simple_tok_stubbed() {
    unsafe { CLASS = kani::any(); }
    let bytes: [u8; 2] = kani::any();
    if let Ok(text) = std::str::from_utf8(&bytes[..]) {
        let mut tk = SimpleTokenizer::default();
        tk.token.text.reserve(8);
        let mut ts = tk.token_stream(text);
        let mut last_to = 0usize;
        let mut n = 0;
        while n < 3 && ts.advance() {
            let t = ts.token();
            assert!(t.offset_from <= t.offset_to && t.offset_to <= text.len());
            assert!(text.is_char_boundary(t.offset_from) && text.is_char_boundary(t.offset_to));
            assert!(t.offset_from >= last_to);
            assert!(t.text.len() == t.offset_to - t.offset_from);
            last_to = t.offset_to;
            n += 1;
        }
        std::mem::forget(tk);
    }
}
