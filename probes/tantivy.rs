// in-crate probe harnesses
use crate::docset::{DocSet, TERMINATED};
use crate::query::score_combiner::DoNothingCombiner;
use crate::query::{BufferedUnionScorer, ConstScorer, Intersection, Scorer};
use crate::DocId;

const N: usize = 3;

/// A leaf docset over a fixed array with symbolic contents.
#[derive(Clone, Copy)]
struct ArrDocSet {
    docs: [DocId; N],
    len: usize,
    cur: usize,
}

impl ArrDocSet {
    fn any(max_doc: DocId) -> ArrDocSet {
        let docs: [DocId; N] = kani::any();
        let len: usize = kani::any();
        kani::assume(len <= N);
        let mut i = 1;
        while i < N {
            if i < len {
                kani::assume(docs[i - 1] < docs[i]);
            }
            i += 1;
        }
        let mut j = 0;
        while j < N {
            if j < len {
                kani::assume(docs[j] < max_doc);
            }
            j += 1;
        }
        ArrDocSet { docs, len, cur: 0 }
    }
    fn contains(&self, d: DocId) -> bool {
        let mut i = 0;
        let mut r = false;
        while i < N {
            if i < self.len && self.docs[i] == d {
                r = true;
            }
            i += 1;
        }
        r
    }
}

impl DocSet for ArrDocSet {
    fn advance(&mut self) -> DocId {
        if self.cur < self.len {
            self.cur += 1;
        }
        self.doc()
    }
    fn doc(&self) -> DocId {
        if self.cur >= self.len {
            TERMINATED
        } else {
            self.docs[self.cur]
        }
    }
    fn size_hint(&self) -> u32 {
        self.len as u32
    }
}

/// first doc >= target in union of a,b, using the reference definition
fn ref_next_union(a: &ArrDocSet, b: &ArrDocSet, target: DocId) -> DocId {
    let mut best = TERMINATED;
    let mut i = 0;
    while i < N {
        if i < a.len && a.docs[i] >= target && a.docs[i] < best {
            best = a.docs[i];
        }
        if i < b.len && b.docs[i] >= target && b.docs[i] < best {
            best = b.docs[i];
        }
        i += 1;
    }
    best
}

fn ref_next_inter(a: &ArrDocSet, b: &ArrDocSet, target: DocId) -> DocId {
    let mut best = TERMINATED;
    let mut i = 0;
    while i < N {
        if i < a.len && a.docs[i] >= target && a.docs[i] < best && b.contains(a.docs[i]) {
            best = a.docs[i];
        }
        i += 1;
    }
    best
}

#[kani::proof]
#[kani::unwind(9)]
fn probe_intersection_seek() {
    let a = ArrDocSet::any(10_000);
    let b = ArrDocSet::any(10_000);
    let mut inter = Intersection::new(
        vec![ConstScorer::new(a, 1.0), ConstScorer::new(b, 1.0)],
        10_000,
    );
    let first = inter.doc();
    assert_eq!(first, ref_next_inter(&a, &b, 0));
    let t: DocId = kani::any();
    kani::assume(t >= first && t <= TERMINATED);
    let got = inter.seek(t);
    assert_eq!(got, ref_next_inter(&a, &b, t));
    if got != TERMINATED {
        let nxt = inter.advance();
        assert_eq!(nxt, ref_next_inter(&a, &b, got + 1));
    }
    std::mem::forget(inter);
}

#[kani::proof]
#[kani::unwind(66)]
fn probe_union_seek() {
    let a = ArrDocSet::any(10_000);
    let b = ArrDocSet::any(10_000);
    let mut u: BufferedUnionScorer<ConstScorer<ArrDocSet>, DoNothingCombiner> =
        BufferedUnionScorer::build(
            vec![ConstScorer::new(a, 1.0), ConstScorer::new(b, 1.0)],
            DoNothingCombiner::default,
            10_000,
        );
    let first = u.doc();
    assert_eq!(first, ref_next_union(&a, &b, 0));
    let t: DocId = kani::any();
    kani::assume(t >= first && t <= TERMINATED);
    let got = u.seek(t);
    assert_eq!(got, ref_next_union(&a, &b, t));
    if got != TERMINATED {
        let nxt = u.advance();
        assert_eq!(nxt, ref_next_union(&a, &b, got + 1));
    }
    std::mem::forget(u);
}

fn topn_check<const K: usize, const M: usize>() {
    use crate::collector::TopNComputer;
    let scores: [u8; M] = kani::any();
    let mut top: TopNComputer<u8, u32, _> = TopNComputer::new(K);
    let mut i = 0u32;
    while (i as usize) < M {
        top.push(scores[i as usize], i);
        i += 1;
    }
    let res = top.into_sorted_vec();
    assert!(res.len() == K.min(M));
    // reference: rank r of doc j = #docs strictly better by (score desc, doc asc)
    let mut r = 0usize;
    while r < res.len() {
        let d = res[r].doc as usize;
        assert!(d < M);
        assert_eq!(res[r].sort_key, scores[d]);
        let mut better = 0usize;
        let mut j = 0usize;
        while j < M {
            if scores[j] > scores[d] || (scores[j] == scores[d] && j < d) {
                better += 1;
            }
            j += 1;
        }
        assert_eq!(better, r);
        r += 1;
    }
    std::mem::forget(res);
}

#[kani::proof]
#[kani::unwind(6)]
fn probe_topn_k1() {
    topn_check::<1, 4>();
}

#[kani::proof]
#[kani::unwind(7)]
fn probe_topn_k2() {
    topn_check::<2, 5>();
}

#[kani::proof]
#[kani::unwind(130)]
fn probe_block_search() {
    use crate::postings::compression::COMPRESSION_BLOCK_SIZE;
    let arr: [u32; COMPRESSION_BLOCK_SIZE] = kani::any();
    let mut i = 1;
    while i < COMPRESSION_BLOCK_SIZE {
        kani::assume(arr[i - 1] <= arr[i]);
        i += 1;
    }
    let target: u32 = kani::any();
    kani::assume(target <= arr[COMPRESSION_BLOCK_SIZE - 1]);
    let idx = crate::postings::search_block(&arr, target);
    assert!(idx < COMPRESSION_BLOCK_SIZE);
    assert!(arr[idx] >= target);
    if idx > 0 {
        assert!(arr[idx - 1] < target);
    }
}

#[path = "/tmp/kharness/batch2.rs"]
mod batch2;

#[kani::proof]
#[kani::unwind(8)]
fn probe_simple_tokenizer() {
    use crate::tokenizer::{SimpleTokenizer, TokenStream, Tokenizer};
    let bytes: [u8; 3] = kani::any();
    let len: usize = kani::any();
    kani::assume(len <= 3);
    if let Ok(text) = std::str::from_utf8(&bytes[..len]) {
        let mut tk = SimpleTokenizer::default();
        let mut ts = tk.token_stream(text);
        let mut last_to = 0usize;
        let mut n = 0;
        while n < 4 && ts.advance() {
            let t = ts.token();
            assert!(t.offset_from <= t.offset_to && t.offset_to <= text.len());
            assert!(text.is_char_boundary(t.offset_from) && text.is_char_boundary(t.offset_to));
            assert!(t.offset_from >= last_to);
            assert!(t.text.as_str() == &text[t.offset_from..t.offset_to]);
            last_to = t.offset_to;
            n += 1;
        }
    }
}

#[kani::proof]
#[kani::unwind(6)]
fn probe_union_small() {
    let a = ArrDocSet::any(200);
    let b = ArrDocSet::any(200);
    kani::assume(a.len <= 2 && b.len <= 2);
    let mut u: BufferedUnionScorer<ConstScorer<ArrDocSet>, DoNothingCombiner> =
        BufferedUnionScorer::build(
            vec![ConstScorer::new(a, 1.0), ConstScorer::new(b, 1.0)],
            DoNothingCombiner::default,
            200,
        );
    let first = u.doc();
    assert_eq!(first, ref_next_union(&a, &b, 0));
    let t: DocId = kani::any();
    kani::assume(t >= first && t <= 300);
    let got = u.seek(t);
    assert_eq!(got, ref_next_union(&a, &b, t));
    if got != TERMINATED {
        let nxt = u.advance();
        assert_eq!(nxt, ref_next_union(&a, &b, got + 1));
    }
    std::mem::forget(u);
}

#[kani::proof]
#[kani::unwind(6)]
fn probe_simple_tokenizer_ascii2() {
    use crate::tokenizer::{SimpleTokenizer, TokenStream, Tokenizer};
    let bytes: [u8; 2] = kani::any();
    kani::assume(bytes[0] < 128 && bytes[1] < 128);
    let text = unsafe { std::str::from_utf8_unchecked(&bytes[..]) };
    let mut tk = SimpleTokenizer::default();
    let mut ts = tk.token_stream(text);
    let mut last_to = 0usize;
    let mut n = 0;
    while n < 3 && ts.advance() {
        let t = ts.token();
        assert!(t.offset_from <= t.offset_to && t.offset_to <= 2);
        assert!(t.offset_from >= last_to);
        assert!(t.text.len() == t.offset_to - t.offset_from);
        last_to = t.offset_to;
        n += 1;
    }
    std::mem::forget(tk);
}

#[kani::proof]
#[kani::unwind(6)]
fn probe_union_adv() {
    let a = ArrDocSet::any(10_000);
    let b = ArrDocSet::any(10_000);
    kani::assume(a.len <= 2 && b.len <= 2);
    let mut u: BufferedUnionScorer<ConstScorer<ArrDocSet>, DoNothingCombiner> =
        BufferedUnionScorer::build(
            vec![ConstScorer::new(a, 1.0), ConstScorer::new(b, 1.0)],
            DoNothingCombiner::default,
            10_000,
        );
    let mut cur = u.doc();
    assert_eq!(cur, ref_next_union(&a, &b, 0));
    let mut i = 0;
    while i < 4 && cur != TERMINATED {
        let nxt = u.advance();
        assert_eq!(nxt, ref_next_union(&a, &b, cur + 1));
        cur = nxt;
        i += 1;
    }
    std::mem::forget(u);
}

#[kani::proof]
fn probe_hist_pos() {
    let v: i32 = kani::any();
    let iv: u32 = kani::any();
    let off: i32 = kani::any();
    kani::assume(v.abs() <= 1 << 20 && off.abs() <= 1 << 20 && iv >= 1 && iv <= 1 << 20);
    let (val, interval, offset) = (v as f64, iv as f64, off as f64);
    let pos = crate::aggregation::bucket::get_bucket_pos_f64(val, interval, offset);
    let key = pos * interval + offset;
    assert!(key <= val && val < key + interval);
}

#[kani::proof]
fn probe_tf_factor() {
    let tf1: u32 = kani::any();
    let norm: f32 = kani::any();
    kani::assume(norm >= 0.0 && norm.is_finite());
    let x = tf1 as f32;
    let f = x / (x + norm);
    if tf1 > 0 { assert!(f >= 0.0 && f <= 1.0); }
    let big = u32::MAX as f32;
    if tf1 > 0 { assert!(f <= big / (big + norm)); }
}
