use super::*;

#[kani::proof]
#[kani::unwind(8)]
fn probe_sort_order() {
    const N: usize = 3;
    let vals: [u64; N] = kani::any();
    let present: [bool; N] = kani::any();
    let reversed: bool = kani::any();
    let mut ops: [ColumnOperation<u64>; 2 * N] = [ColumnOperation::NewDoc(0); 2 * N];
    let mut n = 0usize;
    let mut d = 0u32;
    while (d as usize) < N {
        if present[d as usize] {
            ops[n] = ColumnOperation::NewDoc(d);
            ops[n + 1] = ColumnOperation::Value(vals[d as usize]);
            n += 2;
        }
        d += 1;
    }
    let order = collect_sort_order_from_ops(
        ops[..n].iter().copied(),
        N as u32,
        reversed,
        |v| Some(v),
        None,
        |a: &Option<u64>, b: &Option<u64>| a.cmp(b),
    );
    assert!(order.len() == N);
    let key = |doc: u32| -> Option<u64> { if present[doc as usize] { Some(vals[doc as usize]) } else { None } };
    let mut i = 0;
    let mut seen = 0u32;
    while i < N {
        assert!(order[i] < N as u32);
        seen |= 1 << order[i];
        if i + 1 < N {
            let (a, b) = (key(order[i]), key(order[i + 1]));
            if reversed { assert!(a >= b); } else { assert!(a <= b); }
        }
        i += 1;
    }
    assert!(seen == (1 << N) - 1);
    std::mem::forget(order);
}
