use super::*;
use crate::store::index::Checkpoint;

#[kani::proof]
#[kani::unwind(12)]
fn probe_checkpoint_block() {
    let d0: u32 = kani::any();
    let n0: u32 = kani::any();
    let n1: u32 = kani::any();
    let b0: u32 = kani::any();
    let l0: u32 = kani::any();
    let l1: u32 = kani::any();
    kani::assume(d0 < 1 << 20 && n0 < 1 << 10 && n1 < 1 << 10 && b0 < 1 << 20 && l0 < 1 << 16 && l1 < 1 << 16);
    let c0 = Checkpoint { doc_range: d0..d0 + n0, byte_range: b0 as usize..(b0 + l0) as usize };
    let c1 = Checkpoint { doc_range: d0 + n0..d0 + n0 + n1, byte_range: (b0 + l0) as usize..(b0 + l0 + l1) as usize };
    let mut block = CheckpointBlock { checkpoints: Vec::with_capacity(4) };
    block.checkpoints.push(c0.clone());
    block.checkpoints.push(c1.clone());
    let mut buffer: Vec<u8> = Vec::with_capacity(64);
    block.serialize(&mut buffer);
    let mut out = CheckpointBlock { checkpoints: Vec::with_capacity(4) };
    let mut data = &buffer[..];
    match out.deserialize(&mut data) { Ok(()) => {}, Err(e) => { std::mem::forget(e); panic!() } }
    assert!(data.is_empty());
    assert!(out.checkpoints.len() == 2);
    assert!(out.checkpoints[0] == c0);
    assert!(out.checkpoints[1] == c1);
    std::mem::forget(out); std::mem::forget(block); std::mem::forget(buffer);
}

#[kani::proof]
#[kani::unwind(7)]
fn probe_checkpoint_block_c1() {
    // every field in the 1-byte VInt class, except the doc start in the 2-byte class
    let d0: u32 = kani::any();
    let n0: u32 = kani::any();
    let n1: u32 = kani::any();
    let b0: u32 = kani::any();
    let l0: u32 = kani::any();
    let l1: u32 = kani::any();
    kani::assume(d0 >= 128 && d0 < 16384 && n0 < 128 && n1 < 128 && b0 < 128 && l0 < 128 && l1 < 128);
    let c0 = Checkpoint { doc_range: d0..d0 + n0, byte_range: b0 as usize..(b0 + l0) as usize };
    let c1 = Checkpoint { doc_range: d0 + n0..d0 + n0 + n1, byte_range: (b0 + l0) as usize..(b0 + l0 + l1) as usize };
    let mut block = CheckpointBlock { checkpoints: Vec::with_capacity(4) };
    block.checkpoints.push(c0.clone());
    block.checkpoints.push(c1.clone());
    let mut buffer: Vec<u8> = Vec::with_capacity(64);
    block.serialize(&mut buffer);
    assert!(buffer.len() == 1 + 2 + 1 + 4);
    let mut out = CheckpointBlock { checkpoints: Vec::with_capacity(4) };
    let mut data = &buffer[..];
    match out.deserialize(&mut data) { Ok(()) => {}, Err(e) => { std::mem::forget(e); panic!() } }
    assert!(data.is_empty());
    assert!(out.checkpoints.len() == 2);
    assert!(out.checkpoints[0] == c0);
    assert!(out.checkpoints[1] == c1);
    std::mem::forget(out); std::mem::forget(block); std::mem::forget(buffer);
}
