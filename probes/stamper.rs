use super::*;
#[kani::proof]
fn probe_stamper() {
    let start: u64 = kani::any();
    let n: u64 = kani::any();
    kani::assume(start < u64::MAX / 2 && n < 1 << 32);
    let s = Stamper::new(start);
    let a = s.stamp();
    let r = s.stamps(n);
    let b = s.clone().stamp();
    assert!(a == start && r.start == a + 1 && r.end == r.start + n && b == r.end);
    let x: u64 = kani::any();
    s.revert(x);
    assert!(s.stamp() == x);
    std::mem::forget(s);
}
