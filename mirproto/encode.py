"""mirproto encoder: inlined + unrolled MIR control-flow DAG  ->  SMT-LIB query.

One path through the DAG is selected by Boolean edge variables; call outcomes (Result / Option /
bool tags) are free Booleans constrained only by the branches the code really takes on them
(Try::branch / discriminant / switchInt / is_ok ... are interpreted, everything else is free:
an over-approximation of the feasible paths). A few Boolean state variables are threaded along
the path; a check is a reachability query for a bad state. unsat = holds on every path within
the inlining / unrolling bound.
"""
import re, subprocess, os, time, json
import mir as MIR

PASS_THROUGH = [r"Result::<.*>::map_err", r"Result::<.*>::map::<", r"Option::<.*>::ok_or_else", r"Option::<.*>::ok_or::<",
                r"Result::<.*>::ok$", r"Option::<.*>::map::<", r"Result::<.*>::and_then", r"Result::<.*>::or_else",
                r"Result::<.*>::map_err::<", r"convert::Into<.*>>::into$", r"convert::From<.*>>::from$",
                r"Result::<.*>::inspect_err"]
BOOL_OF_TAG = [(r"Result::<.*>::is_ok$", True), (r"Result::<.*>::is_err$", False),
               (r"Option::<.*>::is_some$", True), (r"Option::<.*>::is_none$", False)]


class Node:
    __slots__ = ("id", "ctx", "fn", "bb", "it", "blk", "out", "inn", "events", "tag", "depth", "kind", "inl_ret_of")

    def __init__(self, id, ctx, fn, bb, it, blk, depth):
        self.id = id; self.ctx = ctx; self.fn = fn; self.bb = bb; self.it = it; self.blk = blk
        self.out = []; self.inn = []; self.events = []; self.tag = None; self.depth = depth
        self.kind = blk.kind if blk is not None else "cut"; self.inl_ret_of = None


def strip_trailing_turbofish(callee):
    """`path::f::<A, impl Iterator<Item = (X, Y)>, impl Fn() -> Z>` -> `path::f` (balanced angle
    brackets; the `>` of `->` is not a bracket)"""
    c = callee
    if not c.endswith(">"):
        return c
    depth = 0
    i = len(c) - 1
    while i >= 0:
        ch = c[i]
        if ch == ">" and not (i > 0 and c[i - 1] == "-"):
            depth += 1
        elif ch == "<":
            depth -= 1
            if depth == 0:
                break
        i -= 1
    if i >= 2 and c[i - 2:i] == "::":
        return c[:i - 2]
    return callee


class Graph:
    def __init__(self, funcs, crate_dir, spec):
        self.funcs = funcs; self.crate_dir = crate_dir; self.spec = spec
        self.nodes = []; self.edges = []  # (src, dst, guard or None)
        self.key2node = {}
        self.unroll = spec.get("unroll", 2)
        self.max_depth = spec.get("depth", 3)
        self.inline_rx = [re.compile(r) for r in spec.get("inline", [])]
        self.noinline_rx = [re.compile(r) for r in spec.get("noinline", [])]
        self.backedges = {}
        self.envs = {}     # ctx -> {local: term}
        self.cut = False
        self.inlined = []
        self.unresolved_inline = []
        self.method_index = None
        self.event_call_rx = [re.compile(e["call"]) for e in spec.get("events", {}).values() if "call" in e]
        # events that stay opaque (not inlined); `even_inlined` events may be inlined AND fire
        self.opaque_event_rx = [re.compile(e["call"]) for e in spec.get("events", {}).values() if "call" in e and not e.get("even_inlined")]

    # ---------------------------------------------------------------- name resolution
    def build_index(self):
        idx = {}
        for name, fl in self.funcs.items():
            m = re.search(r"^(.*)::<impl at [^>]+>::(.*)$", name)
            if m:
                it = MIR.impl_type_of(name, self.crate_dir)
                if it:
                    ty, tr = it
                    ty = ty.split("::")[-1]
                    mod, meth = m.group(1), m.group(2)
                    if tr:
                        idx.setdefault(("trait", ty, tr.split("::")[-1], meth), []).append(name)
                    else:
                        idx.setdefault(("inherent", ty, meth), []).append(name)
            idx.setdefault(("free", name), []).append(name)
        self.method_index = idx

    def resolve(self, callee):
        """callee text at a call site -> function name with a body in this crate (or None)."""
        if self.method_index is None:
            self.build_index()
        c = strip_trailing_turbofish(callee)
        if c in self.funcs:
            return c
        m = re.match(r"<(.+) as (.+)>::(\w+)$", c)
        if m:
            ty = re.sub(r"<.*", "", m.group(1)).split("::")[-1]
            tr = re.sub(r"<.*", "", m.group(2)).split("::")[-1]
            cands = self.method_index.get(("trait", ty, tr, m.group(3)), [])
            if len(cands) == 1:
                return cands[0]
            return None
        m = re.match(r"(.+)::(\w+)$", c)
        if m:
            tyfull = re.sub(r"::<.*>$", "", m.group(1))
            tyfull = re.sub(r"<.*>", "", tyfull)
            ty = tyfull.split("::")[-1]
            cands = self.method_index.get(("inherent", ty, m.group(2)), [])
            mod = "::".join(tyfull.split("::")[:-1])
            c2 = [x for x in cands if x.startswith(mod)] or cands
            if len(c2) == 1:
                return c2[0]
        return None

    def reaches_event(self, fname, seen=None, depth=0):
        """does the body of `fname` (transitively, through resolvable crate calls) contain a call
        that one of the obligation's call-events matches?  Memoised; recursion cut at depth 5."""
        memo = self.__dict__.setdefault("_reach_memo", {})
        if fname in memo:
            return memo[fname]
        if seen is None:
            seen = set()
        if fname in seen or depth > 5:
            return False
        seen.add(fname)
        f = self.funcs[fname][0]
        res = False
        for b in f.order:
            blk = f.blocks[b]
            if blk.cleanup or blk.kind != "call":
                continue
            callee = blk.call["callee"]
            if any(r.search(callee) for r in self.event_call_rx):
                res = True
                break
        if not res:
            for b in f.order:
                blk = f.blocks[b]
                if blk.cleanup or blk.kind != "call":
                    continue
                callee = blk.call["callee"]
                if any(r.search(callee) for r in self.noinline_rx):
                    continue
                tgt = self.resolve_cached(callee)
                if tgt is not None and tgt != fname and self.reaches_event(tgt, seen, depth + 1):
                    res = True
                    break
        memo[fname] = res
        return res

    def resolve_cached(self, callee):
        c = self.__dict__.setdefault("_resolve_memo", {})
        if callee not in c:
            c[callee] = self.resolve(callee)
        return c[callee]

    def want_inline(self, callee, depth):
        if depth >= self.max_depth:
            return None
        if any(r.search(callee) for r in self.noinline_rx):
            return None
        explicit = any(r.search(callee) for r in self.inline_rx)
        if not explicit and not self.spec.get("auto_inline", True):
            return None
        tgt = self.resolve_cached(callee)
        if tgt is None:
            if explicit:
                self.unresolved_inline.append(callee)
            return None
        if explicit:
            return tgt
        # automatic: inline crate functions through which an event of this obligation is reachable,
        # unless the call itself is one of the events (then it stays an opaque event)
        if any(r.search(callee) for r in self.opaque_event_rx):
            return None
        if self.reaches_event(tgt):
            return tgt
        return None

    # ---------------------------------------------------------------- CFG expansion
    def back_edges(self, f):
        if f.name in self.backedges:
            return self.backedges[f.name]
        color = {}
        be = set()
        stack = [("bb0", iter(f.blocks["bb0"].succs))]
        color["bb0"] = 1
        while stack:
            b, it = stack[-1]
            nxt = None
            for s in it:
                if s not in f.blocks:
                    continue
                if color.get(s, 0) == 0:
                    nxt = s
                    break
                if color.get(s) == 1:
                    be.add((b, s))
            if nxt is None:
                color[b] = 2
                stack.pop()
            else:
                color[nxt] = 1
                stack.append((nxt, iter(f.blocks[nxt].succs)))
        self.backedges[f.name] = be
        return be

    def new_node(self, ctx, f, bb, it, depth):
        key = (ctx, bb, it)
        if key in self.key2node:
            return self.key2node[key], False
        blk = f.blocks[bb]
        n = Node(len(self.nodes), ctx, f, bb, it, blk, depth)
        self.nodes.append(n)
        self.key2node[key] = n
        return n, True

    def add_edge(self, a, b, guard=None, bind=None):
        e = (a.id, b.id, guard, bind)
        self.edges.append(e)
        a.out.append(len(self.edges) - 1)
        b.inn.append(len(self.edges) - 1)

    def expand(self, f, ctx, depth, ret_targets):
        """Expand function instance; ret_targets: list collecting this instance's return nodes."""
        be = self.back_edges(f)
        self.envs[ctx] = self.make_env(f, ctx)
        entry, _ = self.new_node(ctx, f, "bb0", 0, depth)
        work = [entry]
        while work:
            n = work.pop()
            blk = n.blk
            if blk.kind in ("return",):
                ret_targets.append(n)
                continue
            if blk.kind in ("unreachable", "resume", "other"):
                continue
            succs = blk.succs
            inl = None
            if blk.kind == "call":
                inl = self.want_inline(blk.call["callee"], depth)
            if inl is not None and blk.call["ret"]:
                callee_f = self.funcs[inl][0]
                cctx = ctx + ((n.bb, n.it),)
                if len(self.nodes) > self.spec.get("max_nodes", 6000):
                    inl = None
                else:
                    self.inlined.append((f.name, n.bb, inl))
                    crets = []
                    centry = self.expand(callee_f, cctx, depth + 1, crets)
                    self.add_edge(n, centry)
                    n.kind = "inlined_call"
                    s = blk.call["ret"]
                    it2 = n.it + (1 if (n.bb, s) in be else 0)
                    if it2 <= self.unroll:
                        m, fresh = self.new_node(ctx, f, s, it2, depth)
                        for r in crets:
                            self.add_edge(r, m, None, ("ret", n.id))
                        if fresh:
                            work.append(m)
                    else:
                        self.cut = True
                    continue
            for s in succs:
                if s not in f.blocks or f.blocks[s].cleanup:
                    continue
                it2 = n.it + (1 if (n.bb, s) in be else 0)
                if it2 > self.unroll:
                    self.cut = True
                    continue
                m, fresh = self.new_node(ctx, f, s, it2, depth)
                self.add_edge(n, m, ("succ", s))
                if fresh:
                    work.append(m)
        return entry

    # ---------------------------------------------------------------- local value environment
    def make_env(self, f, ctx):
        """terms for single-assignment locals: ('tag', nodekey) | ('alias', local) | ('disc', local)
        | ('not', local) | ('boolof', local, pos) ; resolved lazily"""
        defs = f.defs()
        env = {}
        for loc, dl in defs.items():
            if len(dl) != 1:
                continue
            bb, rv = dl[0]
            if rv.startswith("call:"):
                callee = rv[5:]
                blk = f.blocks[bb]
                args = blk.call["args"]
                a0 = re.sub(r"^(move|copy) ", "", args[0]) if args else None
                if re.search(r"as std::ops::Try>::branch$", callee) and a0:
                    env[loc] = ("alias", a0)
                elif any(re.search(p, callee) for p in PASS_THROUGH) and a0 and re.match(r"_\d+$", a0):
                    env[loc] = ("alias", a0)
                else:
                    hit = None
                    for p, pos in BOOL_OF_TAG:
                        if re.search(p, callee) and a0:
                            hit = ("boolof", re.sub(r"^&", "", a0), pos)
                    env[loc] = hit or ("calltag", bb)
            else:
                m = re.match(r"(?:move|copy) (_\d+)$", rv)
                if m:
                    env[loc] = ("alias", m.group(1)); continue
                m = re.match(r"&(?:mut )?(_\d+)$", rv)
                if m:
                    env[loc] = ("alias", m.group(1)); continue
                m = re.match(r"discriminant\((_\d+)\)$", rv)
                if m:
                    env[loc] = ("disc", m.group(1)); continue
                m = re.match(r"(Gt|Ge|Lt|Le|Eq|Ne)\((?:move|copy) (_\d+), (?:(?:move|copy) (_\d+)|const (\d+)_\w+)\)$", rv)
                if m:
                    env[loc] = ("cmp", m.group(1), m.group(2), m.group(3) if m.group(3) else int(m.group(4))); continue
                m = re.match(r"Not\((?:move|copy) (_\d+)\)$", rv)
                if m:
                    env[loc] = ("not", m.group(1)); continue
                m = re.match(r"std::result::Result::<.*>::(Ok|Err)\(", rv)
                if m:
                    env[loc] = ("const", m.group(1) == "Ok"); continue
                m = re.match(r"std::option::Option::<.*>::(Some)\(", rv)
                if m:
                    env[loc] = ("const", True); continue
                if re.match(r"std::option::Option::<.*>::None$", rv):
                    env[loc] = ("const", False); continue
                m = re.match(r"const (true|false)$", rv)
                if m:
                    env[loc] = ("const", m.group(1) == "true"); continue
        return env


def tag_term(g, n_ctx, f, local, it_of_node, depth=0):
    """SMT term (string) for the 'positive' tag of a local (Ok / Some / Continue / true), or None."""
    if depth > 12:
        return None
    env = g.envs.get(n_ctx, {})
    t = env.get(local)
    if t is None:
        return None
    if t[0] == "alias":
        return tag_term(g, n_ctx, f, t[1], it_of_node, depth + 1)
    if t[0] == "calltag":
        # the call node instance in the same unrolling iteration as the user
        for it in range(it_of_node, -1, -1):
            nd = g.key2node.get((n_ctx, t[1], it))
            if nd is not None:
                return "t%d" % nd.id
        return None
    if t[0] == "not":
        x = tag_term(g, n_ctx, f, t[1], it_of_node, depth + 1)
        return None if x is None else "(not %s)" % x
    if t[0] == "boolof":
        x = tag_term(g, n_ctx, f, t[1], it_of_node, depth + 1)
        if x is None:
            return None
        return x if t[2] else "(not %s)" % x
    if t[0] == "const":
        return "true" if t[1] else "false"
    if t[0] == "cmp":
        class _N:
            pass
        pn = _N(); pn.fn = f; pn.ctx = n_ctx; pn.it = it_of_node
        return cmp_term(g, pn, t)
    return None


INT_DECLS = set()


def int_term(g, n, local, depth=0):
    """SMT Int term for an integer-valued local (params and single field reads are free Ints)"""
    if isinstance(local, int):
        return str(local)
    f = n.fn
    if depth > 6:
        return None
    m = re.match(r"_(\d+)$", local)
    nparams = len(re.findall(r"_\d+: ", f.params))
    if m and int(m.group(1)) <= nparams:
        name = "ip_%d_%s" % (abs(hash(n.ctx)) % 100000, local)
        INT_DECLS.add(name)
        return name
    defs = f.defs().get(local, [])
    if len(defs) != 1:
        return None
    bb, rv = defs[0]
    rv = re.sub(r"^no_retag ", "", rv)
    mm = re.match(r"(?:move|copy) (_\d+)$", rv)
    if mm:
        return int_term(g, n, mm.group(1), depth + 1)
    if re.match(r"(?:move|copy) \(", rv):
        # a field / deref read: one free Int per block instance
        for it in range(n.it, -1, -1):
            nd = g.key2node.get((n.ctx, bb, it))
            if nd is not None:
                name = "if_%d_%s" % (nd.id, local)
                INT_DECLS.add(name)
                return name
    return None


SMTOP = {"Gt": ">", "Ge": ">=", "Lt": "<", "Le": "<=", "Eq": "=", "Ne": "distinct"}


def cmp_term(g, n, t):
    a = int_term(g, n, t[2]); b = int_term(g, n, t[3])
    if a is None or b is None:
        return None
    return "(%s %s %s)" % (SMTOP[t[1]], a, b)


def positive_disc(ty):
    """discriminant value that means 'positive' for the type of the scrutinee"""
    if ty is None:
        return None
    ty = ty.strip()
    ty = re.sub(r"^&(mut )?", "", ty)
    if ty.startswith("std::result::Result<"):
        return 0
    if ty.startswith("std::ops::ControlFlow<"):
        return 0
    if ty.startswith("std::option::Option<"):
        return 1
    return None


def edge_guard(g, n, target_bb):
    """SMT guard for taking the switch edge n -> target (None = free)."""
    blk = n.blk
    if blk.kind != "switch":
        return None
    op, targets = blk.switch
    loc = re.sub(r"^(move|copy) ", "", op)
    env = g.envs.get(n.ctx, {})
    t = env.get(loc)
    # which values lead to target
    vals = [k for k, v in targets if v == target_bb]
    explicit = [k for k, v in targets if k != "otherwise"]
    if t is not None and t[0] == "disc":
        scrut = t[1]
        # resolve aliases of the scrutinee for its type
        ty = n.fn.types.get(scrut)
        pos = positive_disc(ty)
        term = tag_term(g, n.ctx, n.fn, scrut, n.it)
        if pos is None or term is None:
            return None
        conds = []
        for k in vals:
            if k == "otherwise":
                # neither explicit value: for 2-variant enums with both listed this is unreachable
                if set(explicit) >= {"0", "1"}:
                    conds.append("false")
                else:
                    other = [x for x in ("0", "1") if x not in explicit]
                    for o in other:
                        conds.append(term if int(o) == pos else "(not %s)" % term)
            else:
                conds.append(term if int(k) == pos else "(not %s)" % term)
        if not conds:
            return None
        return conds[0] if len(conds) == 1 else "(or %s)" % " ".join(conds)
    # boolean switch: [0: F, otherwise: T]
    term = tag_term(g, n.ctx, n.fn, loc, n.it)
    if term is None:
        return None
    ty = n.fn.types.get(loc)
    if ty is not None and ty.strip() != "bool":
        return None
    conds = []
    for k in vals:
        if k == "0":
            conds.append("(not %s)" % term)
        elif k == "otherwise" and explicit == ["0"]:
            conds.append(term)
        elif k == "1":
            conds.append(term)
    if not conds:
        return None
    return conds[0] if len(conds) == 1 else "(or %s)" % " ".join(conds)


def arg_text(g, n, arg, depth=0):
    """expand an argument operand through single-assignment copies / refs / derefs to source text"""
    a = re.sub(r"^(move|copy) ", "", arg)
    if depth > 6 or not re.match(r"_\d+$", a):
        return arg
    f = n.fn
    dbg = [k for k, v in f.debug.items() if v == a]
    if dbg:
        return "dbg:" + dbg[0] + " " + f.types.get(a, "")
    defs = f.defs().get(a, [])
    if len(defs) != 1:
        return a + ":" + f.types.get(a, "")
    bb, rv = defs[0]
    if rv.startswith("call:"):
        blk = f.blocks[bb]
        inner = " ".join(arg_text(g, n, x, depth + 1) for x in blk.call["args"][:2])
        return "call " + rv[5:] + "(" + inner + ")"
    rv = re.sub(r"^no_retag ", "", rv)
    m = re.match(r"(?:move|copy|&|&mut |deref_copy )\s*\(?\*?(_\d+)\)?$", rv)
    if m:
        return arg_text(g, n, m.group(1), depth + 1)
    m = re.match(r"(?:move|copy) \(\*(_\d+)\)$", rv)
    if m:
        return arg_text(g, n, m.group(1), depth + 1)
    return rv


_CLOSURE_RET = {}


def closure_ret_index(funcs):
    """closure identity text `{closure@file:l:c: l:c}` -> declared return type of its MIR body"""
    k = id(funcs)
    if k not in _CLOSURE_RET:
        idx = {}
        for name, fl in funcs.items():
            if "{closure#" not in name:
                continue
            for f in fl:
                m = re.match(r"_1: (?:&mut |&)?(\{closure@[^}]*\})", f.params or "")
                if m:
                    idx[m.group(1)] = (f.ret or "").strip()
        _CLOSURE_RET[k] = idx
    return _CLOSURE_RET[k]


def iterator_item(funcs, callee):
    """best-effort Item type of `<Self as Iterator>::adapter` when Self is `Map<_, closure>` /
    `FilterMap<_, closure>` (closure return type) or spells `Item = T`; '' when unknown"""
    m = re.match(r"<(.*) as std::iter::Iterator>::", callee)
    if not m:
        return ""
    self_ty = m.group(1)
    im = re.search(r"Item = (.*)>", self_ty)
    if im:
        return im.group(1)
    cl = re.findall(r"\{closure@[^}]*\}", self_ty)
    if not cl:
        return ""
    ret = closure_ret_index(funcs).get(cl[-1], "")
    if self_ty.startswith("std::iter::Map<"):
        return ret
    if self_ty.startswith("std::iter::FilterMap<") or self_ty.startswith("std::iter::MapWhile<"):
        om = re.match(r"std::option::Option<(.*)>$", ret)
        return om.group(1) if om else ""
    return ""


_DISC_READ = {}


def discriminant_read(fn, loc):
    """does the body read `discriminant(loc)` (directly or through a reference to loc)?"""
    k = id(fn)
    if k not in _DISC_READ:
        locs = set()
        refs = {}
        for b in fn.blocks.values():
            for s_ in b.stmts:
                m = re.match(r"(_\d+) = &(?:mut )?(_\d+);$", s_)
                if m:
                    refs[m.group(1)] = m.group(2)
        for b in fn.blocks.values():
            for s_ in b.stmts:
                m = re.search(r"discriminant\((?:\(\*(_\d+)\)|(_\d+))\)", s_)
                if m:
                    l = m.group(1) or m.group(2)
                    locs.add(refs.get(l, l)); locs.add(l)
        _DISC_READ[k] = locs
    return loc in _DISC_READ[k]


def match_events(g, events):
    """events: name -> dict(call=regex [, arg=regex][, argn=int]) | dict(drop_type=regex) |
    dict(stmt=regex) | dict(ret=True)"""
    compiled = {}
    for name, e in events.items():
        compiled[name] = e
    counts = {k: 0 for k in events}
    for n in g.nodes:
        blk = n.blk
        for name, e in compiled.items():
            hit = False
            if "call" in e and blk.kind == "call" and n.kind != "inlined_call" or ("call" in e and e.get("even_inlined") and blk.kind == "call"):
                callee_txt = blk.call["callee"] if blk.kind == "call" else ""
                if e.get("with_item") and "std::iter::Iterator>::" in callee_txt:
                    callee_txt += " [Item=" + iterator_item(g.funcs, callee_txt) + "]"
                if blk.kind == "call" and re.search(e["call"], callee_txt):
                    hit = True
                    if "arg" in e:
                        idxs = [e["argn"]] if "argn" in e else range(len(blk.call["args"]))
                        txt = " | ".join(arg_text(g, n, blk.call["args"][i]) for i in idxs if i < len(blk.call["args"]))
                        hit = bool(re.search(e["arg"], txt))
                    if hit and "fn" in e and not re.search(e["fn"], n.fn.name):
                        hit = False
                    if hit and any(re.search(frx, n.fn.name) and re.search(crx, blk.call["callee"]) for frx, crx in e.get("allow", [])):
                        hit = False
            if "drop_type" in e and blk.kind == "drop":
                loc = blk.drop_local
                ty = n.fn.types.get(loc, "")
                if re.search(e["drop_type"], ty) and not any(
                        re.search(frx, n.fn.name) and re.search(trx, ty) for frx, trx in e.get("allow", [])):
                    hit = True
                    # a value whose discriminant the body reads (`match` / `if let` on it) was examined;
                    # dropping it afterwards is not "dropping a Result unexamined"
                    if e.get("examined_ok", True) and discriminant_read(n.fn, loc):
                        hit = False
                    if "fn" in e and not re.search(e["fn"], n.fn.name):
                        hit = False
            if "move_type" in e and blk.kind == "call":
                # a local of the given type is moved into a call (ownership leaves the frame)
                for a in blk.call["args"]:
                    m = re.match(r"move (_\d+)$", a)
                    if m and re.search(e["move_type"], n.fn.types.get(m.group(1), "")):
                        if not ("not_call" in e and re.search(e["not_call"], blk.call["callee"])):
                            hit = True
            if "stmt" in e:
                for s in blk.stmts:
                    m = re.search(e["stmt"], s)
                    if m:
                        ok = True
                        if "group_local_from_call" in e or "group_local_not_from_call" in e:
                            # the local captured by group 1 of the regex must (not) be defined
                            # exactly once, by a call matching the given callee regex
                            loc = m.group(1)
                            dl = n.fn.defs().get(loc, [])
                            for _ in range(6):   # follow `_a = copy/move _b` chains
                                am = re.match(r"(?:move |copy |&|&mut )(_\d+)$", dl[0][1]) if len(dl) == 1 else None
                                if not am:
                                    break
                                dl = n.fn.defs().get(am.group(1), [])
                            rx = e.get("group_local_from_call") or e.get("group_local_not_from_call")
                            from_call = len(dl) == 1 and dl[0][1].startswith("call:") and re.search(rx, dl[0][1][5:]) is not None
                            ok = from_call if "group_local_from_call" in e else not from_call
                        if ok:
                            hit = True
            if "ret" in e and blk.kind == "return" and len(n.ctx) == 0:
                hit = True
            if hit:
                n.events.append(name)
                counts[name] += 1
    return counts


def result_typed(n):
    """does the call at node n produce a Result/Option/bool (a tag worth tracking)?"""
    d = n.blk.call["dest"] if n.blk.call else None
    if not d or not re.match(r"_\d+$", d):
        return False
    ty = n.fn.types.get(d, "")
    return ty.startswith("std::result::Result<") or ty.startswith("std::option::Option<") or ty.strip() == "bool"


def ret_assign(g, n):
    """effect of node n on the return tag of its function instance: ('set', term|None) or None"""
    blk = n.blk
    eff = None
    for s in blk.stmts:
        m = re.match(r"_0 = (.*);$", s)
        if not m:
            continue
        rv = m.group(1)
        if re.match(r"std::result::Result::<.*>::Ok\(", rv) or re.match(r"std::option::Option::<.*>::Some\(", rv):
            eff = ("set", "true")
        elif re.match(r"std::result::Result::<.*>::Err\(", rv) or re.match(r"std::option::Option::<.*>::None$", rv):
            eff = ("set", "false")
        else:
            mm = re.match(r"(?:move|copy) (_\d+)$", rv)
            term = tag_term(g, n.ctx, n.fn, mm.group(1), n.it) if mm else None
            eff = ("set", term)
    if blk.kind == "call" and blk.call["dest"] == "_0":
        callee = blk.call["callee"]
        if re.search(r"FromResidual<.*>>::from_residual$", callee):
            eff = ("set", "false")
        elif any(re.search(p, callee) for p in PASS_THROUGH) and blk.call["args"]:
            a0 = re.sub(r"^(move|copy) ", "", blk.call["args"][0])
            eff = ("set", tag_term(g, n.ctx, n.fn, a0, n.it))
        elif n.kind == "inlined_call":
            eff = ("set_from_callee", None)
        elif result_typed(n):
            eff = ("set", "t%d" % n.id)
        else:
            eff = ("set", None)
    return eff


def build_smt(g, spec, check):
    """returns (smtlib text, bad-node list, meta)"""
    INT_DECLS.clear()
    L, bad, notes = _build_smt(g, spec, check)
    head = ["(set-logic ALL)", "(set-option :produce-models true)"] + ["(declare-const %s Int)" % x for x in sorted(INT_DECLS)]
    return head + L, bad, notes


def _build_smt(g, spec, check):
    L = []
    A = L.append
    nn, ne = len(g.nodes), len(g.edges)
    for i in range(ne):
        A("(declare-const e%d Bool)" % i)
    for n in g.nodes:
        A("(declare-const t%d Bool)" % n.id)   # outcome tag of the call at this node (if any)
    # reach
    for n in g.nodes:
        if n.id == 0:
            A("(define-fun r%d () Bool true)" % n.id)
        elif n.inn:
            A("(define-fun r%d () Bool (or %s))" % (n.id, " ".join("e%d" % e for e in n.inn)) if len(n.inn) > 1
              else "(define-fun r%d () Bool e%d)" % (n.id, n.inn[0]))
        else:
            A("(define-fun r%d () Bool false)" % n.id)
    for n in g.nodes:
        if not n.out:
            continue
        es = ["e%d" % e for e in n.out]
        if len(es) == 1:
            A("(assert (= r%d %s))" % (n.id, es[0]))
        else:
            A("(assert (= r%d (or %s)))" % (n.id, " ".join(es)))
            for i in range(len(es)):
                for j in range(i + 1, len(es)):
                    A("(assert (not (and %s %s)))" % (es[i], es[j]))
    # edge guards
    for i, (a, b, guard, bind) in enumerate(g.edges):
        na = g.nodes[a]
        if guard and guard[0] == "succ" and na.blk.kind == "switch":
            gt = edge_guard(g, na, guard[1])
            if gt is not None:
                A("(assert (=> e%d %s))" % (i, gt))
    # unwrap()/expect(): the call only returns when its operand was Ok / Some
    for n in g.nodes:
        if n.blk.kind == "call" and re.search(r"(Result|Option)::<.*>::(expect|unwrap)$", n.blk.call["callee"]) and n.blk.call["args"]:
            a0 = re.sub(r"^(move|copy) ", "", n.blk.call["args"][0])
            tt = tag_term(g, n.ctx, n.fn, a0, n.it)
            if tt is not None and n.out:
                A("(assert (=> r%d %s))" % (n.id, tt))
    # calls without a tracked result: tag = true
    for n in g.nodes:
        if n.blk.kind == "call" and not result_typed(n) and n.kind != "inlined_call":
            A("(assert t%d)" % n.id)
    # ---- state machines --------------------------------------------------------------------
    depthmax = max(n.depth for n in g.nodes) + 1
    svars = []   # (name, init)
    for d in range(depthmax):
        svars.append(("retk%d" % d, "false"))
        svars.append(("rete%d" % d, "false"))
    kind = check[0]
    if kind in ("precedes_ok", "precedes", "held_during", "precedes_true", "last_is", "requires_between", "ok_requires"):
        svars.append(("st", "false"))
    elif kind in ("not_after_fail", "err_propagates"):
        svars.append(("st", "false"))
    elif kind in ("never", "reach"):
        pass
    for name, init in svars:
        for n in g.nodes:
            A("(declare-const %s_%d Bool)" % (name, n.id))
        A("(assert (= %s_0 %s))" % (name, init))

    def post(n, name):
        cur = "%s_%d" % (name, n.id)
        if name.startswith("ret"):
            d = int(name[4:])
            if n.depth != d:
                return cur
            eff = ret_assign(g, n)
            if eff is None or eff[0] == "set_from_callee":
                return cur
            term = eff[1]
            if name.startswith("retk"):
                return "true" if term is not None else "false"
            return ("(not %s)" % term) if term is not None else cur
        if name == "st":
            evs = n.events
            tag = "t%d" % n.id if n.blk.kind == "call" else "true"
            if kind in ("precedes", "ok_requires"):
                if check[1] in evs:
                    return "true"
                return cur
            if kind == "precedes_ok":
                if check[1] in evs:
                    return "(or %s %s)" % (cur, tag)
                if len(check) > 3 and check[3] and any(x in evs for x in check[3]):
                    return "false"   # reset events
                return cur
            if kind in ("precedes_true", "last_is"):
                if check[1] in evs:
                    return tag
                return cur
            if kind == "requires_between":
                # pending after A succeeded, cleared by a successful C
                if check[1] in evs:
                    return "(or %s %s)" % (cur, tag)
                if check[2] in evs:
                    return "(and %s (not %s))" % (cur, tag)
                return cur
            if kind == "held_during":
                acq, rel = check[1], check[2]
                if acq in evs:
                    return "(or %s %s)" % (cur, tag)
                if any(x in evs for x in rel):
                    return "false"
                return cur
            if kind in ("not_after_fail", "err_propagates"):
                if check[1] in evs:
                    return "(or %s (not %s))" % (cur, tag)
                return cur
        return cur

    for i, (a, b, guard, bind) in enumerate(g.edges):
        na, nb = g.nodes[a], g.nodes[b]
        for name, _ in svars:
            p = post(na, name)
            A("(assert (=> e%d (= %s_%d %s)))" % (i, name, nb.id, p))
        if bind and bind[0] == "ret":
            # returning from an inlined callee into the caller: the call's tag is the callee's
            # return tag when that is known
            callnode = g.nodes[bind[1]]
            d = na.depth
            A("(assert (=> (and e%d %s) (= t%d (not %s))))" % (i, post(na, "retk%d" % d), callnode.id, post(na, "rete%d" % d)))
            # and, if the caller assigns the call result to its own _0, propagate
            if callnode.blk.call["dest"] == "_0":
                dd = callnode.depth
                A("(assert (=> e%d (= retk%d_%d %s)))" % (i, dd, nb.id, post(na, "retk%d" % d)))
                A("(assert (=> e%d (= rete%d_%d %s)))" % (i, dd, nb.id, post(na, "rete%d" % d)))
    # ---- the bad state ---------------------------------------------------------------------
    bad = []
    notes = {}
    if kind in ("precedes_ok", "precedes_true", "precedes"):
        for n in g.nodes:
            if check[2] in n.events:
                bad.append("(and r%d (not st_%d))" % (n.id, n.id))
    elif kind == "requires_between":
        for n in g.nodes:
            if check[3] in n.events:
                bad.append("(and r%d st_%d)" % (n.id, n.id))
    elif kind == "ok_requires":
        # a top-level return whose value is known to be Ok(..) although event A never happened.
        # The return tag is assigned in the block that sets _0; evaluate it at the return node.
        for n in g.nodes:
            if n.blk.kind == "return" and len(n.ctx) == 0:
                bad.append("(and r%d retk0_%d (not rete0_%d) (not st_%d))" % (n.id, n.id, n.id, n.id))
    elif kind == "last_is":
        for n in g.nodes:
            if check[2] in n.events:
                bad.append("(and r%d %s)" % (n.id, ("(not st_%d)" % n.id) if check[3] else ("st_%d" % n.id)))
    elif kind == "held_during":
        for n in g.nodes:
            if any(x in n.events for x in check[3]):
                bad.append("(and r%d (not st_%d))" % (n.id, n.id))
    elif kind == "not_after_fail":
        for n in g.nodes:
            if check[2] in n.events:
                bad.append("(and r%d st_%d)" % (n.id, n.id))
    elif kind == "err_propagates":
        for n in g.nodes:
            if n.blk.kind == "return" and len(n.ctx) == 0:
                bad.append("(and r%d st_%d retk0_%d (not rete0_%d))" % (n.id, n.id, n.id, n.id))
                notes.setdefault("ret_nodes", []).append(n.id)
    elif kind in ("never", "reach"):
        for n in g.nodes:
            if check[1] in n.events:
                bad.append("r%d" % n.id)
    elif kind == "edge_requires":
        # ("edge_requires", {"switch_rv": regex, "branch": "0"|"otherwise"}, op, ("field", rx) | ("param", name), ...)
        sel, op, lhs, rhs = check[1], check[2], check[3], check[4]
        found = 0
        for i, (a, b, guard, bind) in enumerate(g.edges):
            na = g.nodes[a]
            if na.blk.kind != "switch" or not guard or guard[0] != "succ":
                continue
            loc = re.sub(r"^(move|copy) ", "", na.blk.switch[0])
            t = g.envs.get(na.ctx, {}).get(loc)
            if not t or t[0] != "cmp":
                continue
            dl = na.fn.defs().get(loc, [])
            if len(dl) != 1 or not re.search(sel["switch_rv"], dl[0][1]):
                continue
            vals = [k for k, v in na.blk.switch[1] if v == guard[1]]
            if sel["branch"] not in vals:
                continue

            def pick(which):
                for operand in (t[2], t[3]):
                    if isinstance(operand, int):
                        continue
                    if which[0] == "param" and na.fn.debug.get(which[1]) == operand:
                        return int_term(g, na, operand)
                    if which[0] == "field":
                        dd = na.fn.defs().get(operand, [])
                        if len(dd) == 1 and re.search(which[1], dd[0][1]):
                            return int_term(g, na, operand)
                return None
            x, y = pick(lhs), pick(rhs)
            if x is None or y is None:
                notes["unresolved_operands"] = True
                continue
            found += 1
            bad.append("(and e%d (not (%s %s %s)))" % (i, SMTOP[op], x, y))
        notes["edges_matched"] = found
    return L, bad, notes


def solve(lines, bad, solver="z3", timeout=120):
    txt = "\n".join(lines)
    if not bad:
        return "nobad", None, 0.0, txt
    q = txt + "\n(assert (or %s))\n(check-sat)\n(get-model)\n" % " ".join(bad)
    t0 = time.time()
    if solver == "z3":
        cmd = ["z3", "-in", "-T:%d" % timeout]
    else:
        cmd = ["cvc5", "--lang", "smt2", "--produce-models", "--tlimit=%d" % (timeout * 1000)]
    p = subprocess.run(cmd, input=q, stdout=subprocess.PIPE, stderr=subprocess.PIPE, text=True)
    out = p.stdout
    dt = time.time() - t0
    if "(error" in out and not out.strip().startswith("unsat"):
        first = out.strip().split("\n")[0]
        if first not in ("sat", "unsat"):
            return "error", out[:500], dt, q
    first = out.strip().split("\n")[0] if out.strip() else "error"
    return first, out, dt, q


def model_path(g, out):
    """extract the chosen path (list of nodes) from a z3/cvc5 model text"""
    true_vars = set(re.findall(r"\(define-fun (e\d+|t\d+) \(\) Bool\s+true\)", out))
    taken = {int(v[1:]) for v in true_vars if v.startswith("e")}
    path = []
    cur = 0
    seen = set()
    while True:
        n = g.nodes[cur]
        path.append(n)
        seen.add(cur)
        nxt = None
        for e in n.out:
            if e in taken:
                nxt = g.edges[e][1]
                break
        if nxt is None or nxt in seen:
            break
        cur = nxt
    tags = {int(v[1:]) for v in true_vars if v.startswith("t")}
    return path, tags


def describe_path(g, path, tags):
    steps = []
    for n in path:
        blk = n.blk
        if blk.kind == "call":
            res = ""
            if result_typed(n):
                res = " => " + ("Ok/Some/true" if n.id in tags else "Err/None/false")
            if n.events or result_typed(n):
                steps.append({"fn": n.fn.name, "bb": n.bb, "iter": n.it, "call": blk.call["callee"][:160] + res,
                              "events": n.events})
        elif blk.kind == "drop" and n.events:
            steps.append({"fn": n.fn.name, "bb": n.bb, "drop": blk.drop_local, "type": n.fn.types.get(blk.drop_local), "events": n.events})
        elif blk.kind == "return":
            steps.append({"fn": n.fn.name, "bb": n.bb, "return": True})
    return steps
