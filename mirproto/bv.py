"""mirbv: bit-vector symbolic execution of loop-free integer MIR bodies.

A body (typically a closure of a few blocks: comparisons, casts, enum construction) is executed
path by path from bb0; integers are SMT bit-vectors of their declared width, booleans SMT Bools,
enum values are kept as Python trees (type, variant, fields). Calls are either inlined (callee
body present in the dump, depth-limited) or replaced by a *summary* from the table below; each
summary is the definition of a cross-crate leaf function whose equality with the real function is
itself a Kani obligation (see registry: K03-map-*).

Result of `run(func, args)`: list of (path_condition_terms, value). Unsupported statements
raise Unsupported - the obligation then reports `inconclusive`, never a verdict.
"""
import re

INT_TYPES = {"i8": (8, True), "u8": (8, False), "i16": (16, True), "u16": (16, False), "i32": (32, True),
             "u32": (32, False), "i64": (64, True), "u64": (64, False), "isize": (64, True), "usize": (64, False),
             "i128": (128, True), "u128": (128, False)}


class Unsupported(Exception):
    pass


class WrongVariant(Exception):
    """a path guessed the wrong enum variant at a discriminant switch: infeasible, dropped"""


def BV(e, w, s):
    return {"k": "bv", "e": e, "w": w, "s": s}


def BOOL(e):
    return {"k": "bool", "e": e}


def ENUM(ty, variant, fields):
    return {"k": "enum", "ty": ty, "variant": variant, "fields": fields}


_OPAQUE = [0]


def OPAQUE(why=""):
    _OPAQUE[0] += 1
    return {"k": "opaque", "id": _OPAQUE[0], "why": why}


def variant_const(ty, variant):
    """SMT constant standing for the discriminant of a field-less variant (distinct per name)"""
    return "|disc:%s::%s|" % (re.sub(r"\s+", "", ty), variant)


def disc_of(v):
    if v.get("k") == "enum":
        if v.get("disc"):
            return v["disc"]
        if not v["fields"]:
            return variant_const(v["ty"], v["variant"])
    return None


def lit(v, w):
    return "(_ bv%d %d)" % (v % (1 << w), w)


def const_val(txt):
    txt = txt.strip()
    if txt in ("true", "false"):
        return BOOL(txt)
    m = re.match(r"(-?\d+)_([iu](?:8|16|32|64|128|size))$", txt)
    if m:
        w, s = INT_TYPES[m.group(2)]
        return BV(lit(int(m.group(1)), w), w, s)
    m = re.match(r"core::num::<impl ([iu](?:8|16|32|64|128|size))>::(MAX|MIN)$", txt)
    if m:
        w, s = INT_TYPES[m.group(1)]
        if m.group(2) == "MAX":
            v = (1 << (w - 1)) - 1 if s else (1 << w) - 1
        else:
            v = -(1 << (w - 1)) if s else 0
        return BV(lit(v, w), w, s)
    raise Unsupported("constant %r" % txt)


def cast_int(v, ty):
    w, s = INT_TYPES[ty]
    if v["k"] == "opaque":
        return OPAQUE("cast of opaque")
    if v["k"] == "bool":
        return BV("(ite %s %s %s)" % (v["e"], lit(1, w), lit(0, w)), w, s)
    if v["k"] != "bv":
        raise Unsupported("cast of non-integer")
    if w == v["w"]:
        return BV(v["e"], w, s)
    if w < v["w"]:
        return BV("((_ extract %d 0) %s)" % (w - 1, v["e"]), w, s)
    ext = "sign_extend" if v["s"] else "zero_extend"
    return BV("((_ %s %d) %s)" % (ext, w - v["w"], v["e"]), w, s)


BINOPS = {"Add": "bvadd", "Sub": "bvsub", "Mul": "bvmul", "BitXor": "bvxor", "BitAnd": "bvand", "BitOr": "bvor",
          "AddUnchecked": "bvadd", "SubUnchecked": "bvsub"}
CMPS = {"Lt": ("bvslt", "bvult"), "Le": ("bvsle", "bvule"), "Gt": ("bvsgt", "bvugt"), "Ge": ("bvsge", "bvuge")}


def binop(op, a, b):
    if a["k"] == "opaque" or b["k"] == "opaque":
        return OPAQUE("binop on opaque")
    if op in ("Eq", "Ne"):
        if a["k"] == "bool":
            e = "(= %s %s)" % (a["e"], b["e"])
        else:
            e = "(= %s %s)" % (a["e"], b["e"])
        return BOOL(e if op == "Eq" else "(not %s)" % e)
    if a["k"] != "bv" or b["k"] != "bv":
        raise Unsupported("binop %s on non-integers" % op)
    if op in CMPS:
        return BOOL("(%s %s %s)" % (CMPS[op][0 if a["s"] else 1], a["e"], b["e"]))
    if op in BINOPS:
        return BV("(%s %s %s)" % (BINOPS[op], a["e"], b["e"]), a["w"], a["s"])
    if op in ("Shl", "Shr", "ShlUnchecked", "ShrUnchecked"):
        sh = cast_int(b, "u%d" % a["w"] if a["w"] != 64 else "u64")["e"] if b["w"] != a["w"] else b["e"]
        f = "bvshl" if op.startswith("Shl") else ("bvashr" if a["s"] else "bvlshr")
        return BV("(%s %s %s)" % (f, a["e"], sh), a["w"], a["s"])
    raise Unsupported("binop %s" % op)


# ---------------------------------------------------------------------------------------------
# summaries of cross-crate leaf functions (callee regex -> function of argument values)
# ---------------------------------------------------------------------------------------------
def _i64_to_u64(args):
    return BV("(bvxor %s %s)" % (args[0]["e"], lit(1 << 63, 64)), 64, False)


def _u64_identity(args):
    return BV(args[0]["e"], 64, False)


SUMMARIES = [
    (r"^<i64 as (tantivy_columnar|column_values::monotonic_mapping)::MonotonicallyMappableToU64>::to_u64$", _i64_to_u64,
     "i64 -> u64 order-preserving map = (x as u64) ^ 2^63 (equality with the real function: K03-map-i64)"),
    (r"^<u64 as (tantivy_columnar|column_values::monotonic_mapping)::MonotonicallyMappableToU64>::to_u64$", _u64_identity,
     "u64 -> u64 map is the identity (K03-map-u64)"),
]


class Exec:
    def __init__(self, funcs, max_depth=3, max_paths=64, lenient=False, subject=None, target=None):
        """lenient: unknown statements / calls yield opaque values and a switch on an opaque value
        forks without a condition (over-approximation) instead of raising Unsupported.
        subject: (callee regex, disc-constant name): that call returns an enum whose discriminant is
        the named SMT constant. target: callee regex; a path stops there and is reported in `hits`."""
        self.funcs = funcs; self.max_depth = max_depth; self.max_paths = max_paths
        self.summaries_used = []
        self.bodies = []
        self.lenient = lenient; self.subject = subject; self.target = target
        self.subject_result = False; self.n_subjects = 0
        self.hits = []      # (conds, callee) of paths that reached a target call
        self.cut = 0        # paths abandoned (loop / too long)
        self.consts = set() # variant constants used

    def operand(self, f, env, txt):
        txt = txt.strip()
        m = re.match(r"(?:copy|move) (.*)$", txt)
        if m:
            return self.place(f, env, m.group(1))
        if txt.startswith("const ") and "promoted[" in txt:
            # a promoted constant belongs to the body being executed
            n = re.search(r"promoted\[(\d+)\]", txt).group(1)
            body = self.funcs.get("const %s::promoted[%s]" % (f.name, n))
            if body:
                out = self.run(body[0], [])
                if len(out) == 1:
                    return out[0][1]
            if self.lenient:
                return OPAQUE("promoted const")
            raise Unsupported("promoted constant %r" % txt)
        if txt.startswith("const "):
            try:
                return const_val(txt[6:])
            except Unsupported:
                if self.lenient:
                    return OPAQUE("const")
                raise
        if self.lenient:
            return OPAQUE("operand")
        raise Unsupported("operand %r" % txt)

    def place(self, f, env, p):
        p = p.strip()
        m = re.match(r"\(\*(_\d+)\)$", p)
        if m:
            p = m.group(1)      # references are kept as the value they point to
        if re.match(r"_\d+$", p):
            if p not in env:
                if self.lenient:
                    return OPAQUE("unset local")
                raise Unsupported("use of unset local %s" % p)
            return env[p]
        if self.lenient:
            return OPAQUE("place")
        raise Unsupported("place %r" % p)

    def rvalue(self, f, env, rv, dest_ty):
        rv = rv.strip()
        if rv.startswith("no_retag "):
            rv = rv[len("no_retag "):]
        m = re.match(r"discriminant\((.*)\)$", rv)
        if m:
            inner = m.group(1)
            pm = re.match(r"\(\((_\d+) as (\w+)\)\.(\d+): .*\)$", inner)
            if pm:
                base = self.place(f, env, pm.group(1))
                v = base["err"] if (base.get("k") == "enum" and base.get("err") is not None and pm.group(2) == "Err") else OPAQUE("projection")
            else:
                v = self.place(f, env, inner)
            if v.get("k") == "enum" and v.get("fields") and not v.get("disc"):
                return {"k": "variant_disc", "enum": v}
            d = disc_of(v)
            if d is not None:
                if d.startswith("|disc:"):
                    self.consts.add(d)
                return BV(d, 64, True)
            if self.lenient:
                return OPAQUE("discriminant")
            raise Unsupported("discriminant of %r" % v.get("k"))
        m = re.match(r"(\w+)\((.*), (.*)\)$", rv)
        if m and (m.group(1) in BINOPS or m.group(1) in CMPS or m.group(1) in ("Eq", "Ne", "Shl", "Shr", "ShlUnchecked", "ShrUnchecked")):
            return binop(m.group(1), self.operand(f, env, m.group(2)), self.operand(f, env, m.group(3)))
        m = re.match(r"(.*) as ([iu](?:8|16|32|64|128|size)) \(IntToInt\)$", rv)
        if m:
            return cast_int(self.operand(f, env, m.group(1)), m.group(2))
        m = re.match(r"Not\((.*)\)$", rv)
        if m:
            v = self.operand(f, env, m.group(1))
            return BOOL("(not %s)" % v["e"]) if v["k"] == "bool" else BV("(bvnot %s)" % v["e"], v["w"], v["s"])
        m = re.match(r"(?:copy |move )?\(\((_\d+) as (\w+)\)\.(\d+): .*\)$", rv)
        if m:
            base = self.place(f, env, m.group(1))
            if base.get("k") == "enum" and base.get("err") is not None and m.group(2) == "Err":
                return base["err"]
            if base.get("k") == "enum" and base.get("variant") is not None:
                if base["variant"] != m.group(2):
                    raise WrongVariant()
                return base["fields"][int(m.group(3))]
            if self.lenient:
                return OPAQUE("projection")
            raise Unsupported("projection %r" % rv)
        m = re.match(r"&(?:mut )?(.*)$", rv)
        if m:
            return self.place(f, env, m.group(1))
        if rv.startswith(("copy ", "move ", "const ")):
            return self.operand(f, env, rv)
        # enum / struct aggregate: Path::<T>::Variant(args) | Path::<T>::Variant
        m = re.match(r"([A-Za-z_][\w:<>, ]*?)::(?:<.*>::)?([A-Z]\w*)(?:\((.*)\))?$", rv)
        if m:
            fields = []
            if m.group(3):
                from mir import split_call  # noqa
                _, args = split_call("x(" + m.group(3) + ")")
                fields = [self.operand(f, env, a) for a in args]
            return ENUM(m.group(1), m.group(2), fields)
        if self.lenient:
            return OPAQUE("rvalue")
        raise Unsupported("rvalue %r" % rv)

    def run(self, f, args, depth=0):
        """args: list of values for _1.. ; returns list of (conds, value)"""
        self.bodies.append(f.name)
        env0 = {}
        for i, a in enumerate(args):
            if a is not None:
                env0["_%d" % (i + 1)] = a
        results = []
        stack = [("bb0", env0, [], 0)]
        while stack:
            bname, env, conds, steps = stack.pop()
            if steps > 200:
                if self.lenient:
                    self.cut += 1
                    continue
                raise Unsupported("loop or too long a path in %s" % f.name)
            if len(results) + len(stack) > self.max_paths:
                raise Unsupported("too many paths in %s" % f.name)
            blk = f.blocks[bname]
            env = dict(env)
            dead = False
            for s in blk.stmts:
                if s.startswith(("StorageLive", "StorageDead", "nop", "FakeRead", "PlaceMention", "Retag", "AscribeUserType", "Coverage")):
                    continue
                m = re.match(r"(_\d+) = (.*);$", s)
                if not m:
                    if self.lenient:
                        continue    # projections / derefs being assigned: not tracked
                    raise Unsupported("statement %r" % s)
                try:
                    env[m.group(1)] = self.rvalue(f, env, m.group(2), f.types.get(m.group(1)))
                except WrongVariant:
                    dead = True
                    break
                except Unsupported:
                    if not self.lenient:
                        raise
                    env[m.group(1)] = OPAQUE("rvalue")
            if dead:
                continue
            k = blk.kind
            if k == "unreachable":
                continue
            if k == "return":
                if "_0" not in env:
                    if self.lenient:
                        results.append((conds, OPAQUE("unit / untracked return value")))
                        continue
                    raise Unsupported("return without _0")
                results.append((conds, env["_0"]))
            elif k == "goto":
                stack.append((blk.succs[0], env, conds, steps + 1))
            elif k == "switch":
                op, targets = blk.switch
                v = self.operand(f, env, op)
                if v["k"] in ("opaque", "variant_disc"):
                    for key, tgt in targets:
                        stack.append((tgt, env, conds, steps + 1))
                    continue
                explicit = []
                for key, tgt in targets:
                    if key == "otherwise":
                        continue
                    if v["k"] == "bool":
                        c = v["e"] if int(key) != 0 else "(not %s)" % v["e"]
                    else:
                        c = "(= %s %s)" % (v["e"], lit(int(key), v["w"]))
                    explicit.append(c)
                    stack.append((tgt, env, conds + [c], steps + 1))
                for key, tgt in targets:
                    if key == "otherwise":
                        stack.append((tgt, env, conds + ["(not %s)" % c for c in explicit], steps + 1))
            elif k == "call":
                callee = blk.call["callee"]
                if self.target and re.search(self.target, callee):
                    self.hits.append((conds, callee, env.get("__last_subject")))
                    continue
                vals = [self.operand(f, env, a) for a in blk.call["args"]]
                out = None
                if self.subject and re.search(self.subject[0], callee):
                    if self.subject_result:
                        # Result<T, E>: symbolic Ok/Err tag and, for Err, a symbolic variant of E; fresh per call
                        self.n_subjects += 1
                        k_ = self.n_subjects
                        val = {"k": "enum", "ty": "Result", "variant": None, "fields": [], "disc": "subj_tag_%d" % k_,
                               "err": {"k": "enum", "ty": "E", "variant": None, "fields": [], "disc": "subj_%d" % k_}}
                        env = dict(env); env["__last_subject"] = k_
                        out = [([], val)]
                    else:
                        out = [([], {"k": "enum", "ty": "subject", "variant": None, "fields": [], "disc": self.subject[1]})]
                m_eq = re.match(r"<(.*) as std::cmp::PartialEq>::(eq|ne)$", callee)
                if out is None and m_eq and len(vals) == 2:
                    d0, d1 = disc_of(vals[0]), disc_of(vals[1])
                    if d0 is not None and d1 is not None:
                        for d_ in (d0, d1):
                            if d_.startswith("|disc:"):
                                self.consts.add(d_)
                        e = "(= %s %s)" % (d0, d1)
                        out = [([], BOOL(e if m_eq.group(2) == "eq" else "(not %s)" % e))]
                for rx, fn, why in SUMMARIES:
                    if re.search(rx, callee):
                        out = [([], fn(vals))]
                        self.summaries_used.append(why)
                        break
                if out is None:
                    cands = self.funcs.get(callee)
                    if self.lenient:
                        out = [([], OPAQUE("call " + callee[:60]))]
                    elif not cands or depth >= self.max_depth:
                        raise Unsupported("call to %s (no body in the dump, no summary)" % callee)
                    else:
                        out = self.run(cands[0], vals, depth + 1)
                if not blk.call["ret"]:
                    if self.lenient:
                        continue
                    raise Unsupported("diverging call %s" % callee)
                for c2, v2 in out:
                    e2 = dict(env)
                    e2[blk.call["dest"]] = v2
                    stack.append((blk.call["ret"], e2, conds + c2, steps + 1))
            elif k == "assert":
                # overflow / bounds assertion: follow the success edge under its condition
                m = re.match(r"assert\((!?)(.*?), ", blk.term)
                if not m or not blk.succs:
                    raise Unsupported("assert terminator %r" % blk.term[:60])
                v = self.operand(f, env, m.group(2))
                if v["k"] == "opaque":
                    stack.append((blk.succs[0], env, conds, steps + 1))
                    continue
                c = ("(not %s)" % v["e"]) if m.group(1) else v["e"]
                stack.append((blk.succs[0], env, conds + [c], steps + 1))
            elif k == "drop" and blk.succs:
                stack.append((blk.succs[0], env, conds, steps + 1))
            elif self.lenient and k in ("unreachable", "resume", "other"):
                continue
            else:
                raise Unsupported("terminator kind %s in %s" % (k, f.name))
        return results


def conj(cs):
    cs = [c for c in cs if c != "true"]
    if not cs:
        return "true"
    return cs[0] if len(cs) == 1 else "(and %s)" % " ".join(cs)
