"""mirbv: bit-vector symbolic execution of loop-free integer MIR bodies.

A body (typically a closure of a few blocks: comparisons, casts, enum construction) is executed
path by path from bb0; integers are SMT bit-vectors of their declared width, booleans SMT Bools,
enum values are kept as Python trees (type, variant, fields). Calls are either inlined (callee
body present in the dump, depth-limited) or replaced by a *summary* from the table below; each
summary is the definition of a cross-crate leaf function whose equality with the real function is
itself a Kani obligation (see registry: K03-map-*).

Result of `run(func, args)`: list of (path_condition_terms, value). Unsupported statements
raise Unsupported - the obligation then reports `inconclusive`, never a verdict.
"""
import re

INT_TYPES = {"i8": (8, True), "u8": (8, False), "i16": (16, True), "u16": (16, False), "i32": (32, True),
             "u32": (32, False), "i64": (64, True), "u64": (64, False), "isize": (64, True), "usize": (64, False),
             "i128": (128, True), "u128": (128, False)}


class Unsupported(Exception):
    pass


def BV(e, w, s):
    return {"k": "bv", "e": e, "w": w, "s": s}


def BOOL(e):
    return {"k": "bool", "e": e}


def ENUM(ty, variant, fields):
    return {"k": "enum", "ty": ty, "variant": variant, "fields": fields}


def lit(v, w):
    return "(_ bv%d %d)" % (v % (1 << w), w)


def const_val(txt):
    txt = txt.strip()
    if txt in ("true", "false"):
        return BOOL(txt)
    m = re.match(r"(-?\d+)_([iu](?:8|16|32|64|128|size))$", txt)
    if m:
        w, s = INT_TYPES[m.group(2)]
        return BV(lit(int(m.group(1)), w), w, s)
    m = re.match(r"core::num::<impl ([iu](?:8|16|32|64|128|size))>::(MAX|MIN)$", txt)
    if m:
        w, s = INT_TYPES[m.group(1)]
        if m.group(2) == "MAX":
            v = (1 << (w - 1)) - 1 if s else (1 << w) - 1
        else:
            v = -(1 << (w - 1)) if s else 0
        return BV(lit(v, w), w, s)
    raise Unsupported("constant %r" % txt)


def cast_int(v, ty):
    w, s = INT_TYPES[ty]
    if v["k"] == "bool":
        return BV("(ite %s %s %s)" % (v["e"], lit(1, w), lit(0, w)), w, s)
    if v["k"] != "bv":
        raise Unsupported("cast of non-integer")
    if w == v["w"]:
        return BV(v["e"], w, s)
    if w < v["w"]:
        return BV("((_ extract %d 0) %s)" % (w - 1, v["e"]), w, s)
    ext = "sign_extend" if v["s"] else "zero_extend"
    return BV("((_ %s %d) %s)" % (ext, w - v["w"], v["e"]), w, s)


BINOPS = {"Add": "bvadd", "Sub": "bvsub", "Mul": "bvmul", "BitXor": "bvxor", "BitAnd": "bvand", "BitOr": "bvor",
          "AddUnchecked": "bvadd", "SubUnchecked": "bvsub"}
CMPS = {"Lt": ("bvslt", "bvult"), "Le": ("bvsle", "bvule"), "Gt": ("bvsgt", "bvugt"), "Ge": ("bvsge", "bvuge")}


def binop(op, a, b):
    if op in ("Eq", "Ne"):
        if a["k"] == "bool":
            e = "(= %s %s)" % (a["e"], b["e"])
        else:
            e = "(= %s %s)" % (a["e"], b["e"])
        return BOOL(e if op == "Eq" else "(not %s)" % e)
    if a["k"] != "bv" or b["k"] != "bv":
        raise Unsupported("binop %s on non-integers" % op)
    if op in CMPS:
        return BOOL("(%s %s %s)" % (CMPS[op][0 if a["s"] else 1], a["e"], b["e"]))
    if op in BINOPS:
        return BV("(%s %s %s)" % (BINOPS[op], a["e"], b["e"]), a["w"], a["s"])
    if op in ("Shl", "Shr", "ShlUnchecked", "ShrUnchecked"):
        sh = cast_int(b, "u%d" % a["w"] if a["w"] != 64 else "u64")["e"] if b["w"] != a["w"] else b["e"]
        f = "bvshl" if op.startswith("Shl") else ("bvashr" if a["s"] else "bvlshr")
        return BV("(%s %s %s)" % (f, a["e"], sh), a["w"], a["s"])
    raise Unsupported("binop %s" % op)


# ---------------------------------------------------------------------------------------------
# summaries of cross-crate leaf functions (callee regex -> function of argument values)
# ---------------------------------------------------------------------------------------------
def _i64_to_u64(args):
    return BV("(bvxor %s %s)" % (args[0]["e"], lit(1 << 63, 64)), 64, False)


def _u64_identity(args):
    return BV(args[0]["e"], 64, False)


SUMMARIES = [
    (r"^<i64 as tantivy_columnar::MonotonicallyMappableToU64>::to_u64$", _i64_to_u64,
     "i64 -> u64 order-preserving map = (x as u64) ^ 2^63 (equality with the real function: K03-map-i64)"),
    (r"^<u64 as tantivy_columnar::MonotonicallyMappableToU64>::to_u64$", _u64_identity,
     "u64 -> u64 map is the identity (K03-map-u64)"),
]


class Exec:
    def __init__(self, funcs, max_depth=3, max_paths=64):
        self.funcs = funcs; self.max_depth = max_depth; self.max_paths = max_paths
        self.summaries_used = []
        self.bodies = []

    def operand(self, f, env, txt):
        txt = txt.strip()
        m = re.match(r"(?:copy|move) (.*)$", txt)
        if m:
            return self.place(f, env, m.group(1))
        if txt.startswith("const "):
            return const_val(txt[6:])
        raise Unsupported("operand %r" % txt)

    def place(self, f, env, p):
        p = p.strip()
        m = re.match(r"\(\*(_\d+)\)$", p)
        if m:
            p = m.group(1)      # references are kept as the value they point to
        if re.match(r"_\d+$", p):
            if p not in env:
                raise Unsupported("use of unset local %s" % p)
            return env[p]
        raise Unsupported("place %r" % p)

    def rvalue(self, f, env, rv, dest_ty):
        rv = rv.strip()
        m = re.match(r"(\w+)\((.*), (.*)\)$", rv)
        if m and (m.group(1) in BINOPS or m.group(1) in CMPS or m.group(1) in ("Eq", "Ne", "Shl", "Shr", "ShlUnchecked", "ShrUnchecked")):
            return binop(m.group(1), self.operand(f, env, m.group(2)), self.operand(f, env, m.group(3)))
        m = re.match(r"(.*) as ([iu](?:8|16|32|64|128|size)) \(IntToInt\)$", rv)
        if m:
            return cast_int(self.operand(f, env, m.group(1)), m.group(2))
        m = re.match(r"Not\((.*)\)$", rv)
        if m:
            v = self.operand(f, env, m.group(1))
            return BOOL("(not %s)" % v["e"]) if v["k"] == "bool" else BV("(bvnot %s)" % v["e"], v["w"], v["s"])
        m = re.match(r"&(?:mut )?(.*)$", rv)
        if m:
            return self.place(f, env, m.group(1))
        if rv.startswith(("copy ", "move ", "const ")):
            return self.operand(f, env, rv)
        # enum / struct aggregate: Path::<T>::Variant(args) | Path::<T>::Variant
        m = re.match(r"([A-Za-z_][\w:<>, ]*?)::(?:<.*>::)?([A-Z]\w*)(?:\((.*)\))?$", rv)
        if m:
            fields = []
            if m.group(3):
                from mir import split_call  # noqa
                _, args = split_call("x(" + m.group(3) + ")")
                fields = [self.operand(f, env, a) for a in args]
            return ENUM(m.group(1), m.group(2), fields)
        raise Unsupported("rvalue %r" % rv)

    def run(self, f, args, depth=0):
        """args: list of values for _1.. ; returns list of (conds, value)"""
        self.bodies.append(f.name)
        env0 = {}
        for i, a in enumerate(args):
            if a is not None:
                env0["_%d" % (i + 1)] = a
        results = []
        stack = [("bb0", env0, [], 0)]
        while stack:
            bname, env, conds, steps = stack.pop()
            if steps > 200:
                raise Unsupported("loop or too long a path in %s" % f.name)
            if len(results) + len(stack) > self.max_paths:
                raise Unsupported("too many paths in %s" % f.name)
            blk = f.blocks[bname]
            env = dict(env)
            for s in blk.stmts:
                if s.startswith(("StorageLive", "StorageDead", "nop", "FakeRead", "PlaceMention", "Retag", "AscribeUserType", "Coverage")):
                    continue
                m = re.match(r"(_\d+) = (.*);$", s)
                if not m:
                    raise Unsupported("statement %r" % s)
                env[m.group(1)] = self.rvalue(f, env, m.group(2), f.types.get(m.group(1)))
            k = blk.kind
            if k == "return":
                if "_0" not in env:
                    raise Unsupported("return without _0")
                results.append((conds, env["_0"]))
            elif k == "goto":
                stack.append((blk.succs[0], env, conds, steps + 1))
            elif k == "switch":
                op, targets = blk.switch
                v = self.operand(f, env, op)
                explicit = []
                for key, tgt in targets:
                    if key == "otherwise":
                        continue
                    if v["k"] == "bool":
                        c = v["e"] if int(key) != 0 else "(not %s)" % v["e"]
                    else:
                        c = "(= %s %s)" % (v["e"], lit(int(key), v["w"]))
                    explicit.append(c)
                    stack.append((tgt, env, conds + [c], steps + 1))
                for key, tgt in targets:
                    if key == "otherwise":
                        stack.append((tgt, env, conds + ["(not %s)" % c for c in explicit], steps + 1))
            elif k == "call":
                callee = blk.call["callee"]
                vals = [self.operand(f, env, a) for a in blk.call["args"]]
                out = None
                for rx, fn, why in SUMMARIES:
                    if re.search(rx, callee):
                        out = [([], fn(vals))]
                        self.summaries_used.append(why)
                        break
                if out is None:
                    cands = self.funcs.get(callee)
                    if not cands or depth >= self.max_depth:
                        raise Unsupported("call to %s (no body in the dump, no summary)" % callee)
                    out = self.run(cands[0], vals, depth + 1)
                if not blk.call["ret"]:
                    raise Unsupported("diverging call %s" % callee)
                for c2, v2 in out:
                    e2 = dict(env)
                    e2[blk.call["dest"]] = v2
                    stack.append((blk.call["ret"], e2, conds + c2, steps + 1))
            elif k == "assert":
                # overflow / bounds assertion: follow the success edge under its condition
                m = re.match(r"assert\((!?)(.*?), ", blk.term)
                if not m or not blk.succs:
                    raise Unsupported("assert terminator %r" % blk.term[:60])
                v = self.operand(f, env, m.group(2))
                c = ("(not %s)" % v["e"]) if m.group(1) else v["e"]
                stack.append((blk.succs[0], env, conds + [c], steps + 1))
            else:
                raise Unsupported("terminator kind %s in %s" % (k, f.name))
        return results


def conj(cs):
    cs = [c for c in cs if c != "true"]
    if not cs:
        return "true"
    return cs[0] if len(cs) == 1 else "(and %s)" % " ".join(cs)
