"""Parser for `rustc -Zunpretty=mir -Ztrim-diagnostic-paths=no` output.

Gives, per function body: parameter / debug names, declared local types, basic blocks with
statements and a structured terminator (call / switchInt / goto / drop / assert / return ...).
"""
import re, os, subprocess, time

REPO = os.environ.get("VERIF_REPO", "/repo")


class Block:
    __slots__ = ("name", "cleanup", "stmts", "term", "kind", "succs", "call", "switch", "drop_local", "line")

    def __init__(self, name, cleanup):
        self.name = name; self.cleanup = cleanup; self.stmts = []; self.term = ""; self.kind = ""
        self.succs = []; self.call = None; self.switch = None; self.drop_local = None; self.line = 0


class Func:
    def __init__(self, name, params, ret, line):
        self.name = name; self.params = params; self.ret = ret; self.line = line
        self.blocks = {}; self.order = []; self.types = {}; self.debug = {}; self.impl_type = None

    def defs(self):
        """local -> list of (block, rvalue text) for plain assignments and call destinations"""
        d = {}
        for b in self.order:
            blk = self.blocks[b]
            for s in blk.stmts:
                m = re.match(r"(_\d+) = (.*);$", s)
                if m:
                    d.setdefault(m.group(1), []).append((b, m.group(2)))
            if blk.call and blk.call["dest"]:
                m = re.match(r"(_\d+)$", blk.call["dest"])
                if m:
                    d.setdefault(m.group(1), []).append((b, "call:" + blk.call["callee"]))
        return d


def split_call(rest):
    """rest = 'callee(args)' -> (callee, [args]); split at the LAST balanced paren group."""
    rest = rest.strip()
    if not rest.endswith(")"):
        return rest, []
    depth = 0
    i = len(rest) - 1
    while i >= 0:
        c = rest[i]
        if c == ")":
            depth += 1
        elif c == "(":
            depth -= 1
            if depth == 0:
                break
        i -= 1
    callee = rest[:i]
    argtxt = rest[i + 1:-1]
    args, cur, d = [], "", 0
    for c in argtxt:
        if c in "([{<":
            d += 1
        elif c in ")]}>":
            d -= 1
        if c == "," and d == 0:
            args.append(cur.strip()); cur = ""
        else:
            cur += c
    if cur.strip():
        args.append(cur.strip())
    return callee, args


def parse_term(blk):
    t = blk.term
    if t.startswith("goto -> "):
        blk.kind = "goto"; blk.succs = [t[len("goto -> "):].rstrip(";")]
    elif t.startswith("switchInt("):
        blk.kind = "switch"
        m = re.match(r"switchInt\((.*)\) -> \[(.*)\];$", t)
        op = m.group(1)
        targets = []
        for part in m.group(2).split(", "):
            k, v = part.split(": ")
            targets.append((k, v))
        blk.switch = (op, targets)
        blk.succs = [v for _, v in targets]
    elif t.startswith("return"):
        blk.kind = "return"
    elif t.startswith("unreachable"):
        blk.kind = "unreachable"
    elif t.startswith("resume") or t.startswith("abort") or t.startswith("terminate"):
        blk.kind = "resume"
    elif t.startswith("drop("):
        blk.kind = "drop"
        m = re.match(r"drop\((.*?)\) -> \[return: (bb\d+)", t)
        blk.drop_local = m.group(1)
        blk.succs = [m.group(2)]
    elif t.startswith("assert("):
        blk.kind = "assert"
        m = re.search(r"-> \[success: (bb\d+)", t)
        blk.succs = [m.group(1)] if m else []
    else:
        # call
        blk.kind = "call"
        m = re.match(r"(?:(.+?) = )?(.*?) -> (\[return: (bb\d+).*\]|unwind.*);$", t, re.S)
        if not m:
            blk.kind = "other"
            return
        dest, rest, ret = m.group(1), m.group(2), m.group(4)
        # dest may itself contain ' = ' only in pathological cases; keep simple
        callee, args = split_call(rest)
        blk.call = {"dest": dest, "callee": callee, "args": args, "ret": ret}
        blk.succs = [ret] if ret else []


def parse(text):
    # name the statics: `allocN (static: path::NAME, ...)` -> `{allocN=path::NAME: ...}` at uses
    statics = dict(re.findall(r"^(alloc\d+) \(static: ([^,]+),", text, re.M))
    if statics:
        text = re.sub(r"\{(alloc\d+): ", lambda m: "{%s=%s: " % (m.group(1), statics.get(m.group(1), "?")), text)
    funcs = {}
    cur = None
    blk = None
    lines = text.split("\n")
    i = 0
    n = len(lines)
    while i < n:
        line = lines[i]
        if cur is None:
            mconst = re.match(r"const (.*?promoted\[\d+\]): (.*) = \{$", line)
            if mconst:
                # promoted constant body: `const path::promoted[N]: T = {` ... `}`
                cur = Func("const " + mconst.group(1), "", mconst.group(2), i + 1)
                i += 1
                continue
            if line.startswith("fn ") and line.endswith("{"):
                head = line[3:-2]
                p = head.find("(")
                name = head[:p]
                rest = head[p:]
                # params .. ) -> ret
                k = rest.rfind(") -> ")
                params = rest[1:k] if k >= 0 else rest[1:-1]
                ret = rest[k + 5:] if k >= 0 else "()"
                cur = Func(name, params, ret, i + 1)
            i += 1
            continue
        if line == "}":
            funcs.setdefault(cur.name, []).append(cur)
            cur = None; blk = None
            i += 1
            continue
        if blk is None:
            m = re.match(r"    (bb\d+)( \(cleanup\))?: \{$", line)
            if m:
                blk = Block(m.group(1), bool(m.group(2))); blk.line = i + 1
            else:
                m = re.match(r"\s+debug (\S+) => (.*);$", line)
                if m:
                    cur.debug.setdefault(m.group(1), m.group(2))
                m = re.match(r"\s+let (?:mut )?(_\d+): (.*);$", line)
                if m:
                    cur.types[m.group(1)] = m.group(2)
            i += 1
            continue
        if line == "    }":
            if blk.stmts:
                blk.term = blk.stmts.pop()
            parse_term(blk)
            cur.blocks[blk.name] = blk
            cur.order.append(blk.name)
            blk = None
            i += 1
            continue
        s = line.strip()
        # multi-line statements (rare): join until ';'
        while not s.endswith(";") and i + 1 < n and lines[i + 1].strip() != "}" :
            i += 1
            s += " " + lines[i].strip()
        blk.stmts.append(s)
        i += 1
    # parameter types
    for fl in funcs.values():
        for f in fl:
            for pm in re.finditer(r"(_\d+): ", f.params):
                pass
            parts, curp, d = [], "", 0
            for c in f.params:
                if c in "([{<":
                    d += 1
                elif c in ")]}>":
                    d -= 1
                if c == "," and d == 0:
                    parts.append(curp.strip()); curp = ""
                else:
                    curp += c
            if curp.strip():
                parts.append(curp.strip())
            for p in parts:
                m = re.match(r"(_\d+): (.*)$", p)
                if m:
                    f.types[m.group(1)] = m.group(2)
    return funcs


_IMPL_CACHE = {}


def impl_type_of(name, crate_dir):
    """For 'mod::<impl at src/x.rs:L:C: L2:C2>::method' read the impl header from the source:
    returns (self_type, trait or None)."""
    m = re.search(r"<impl at ([^:>]+):(\d+):(\d+): (\d+):(\d+)>", name)
    if not m:
        return None
    key = (m.group(1), int(m.group(2)))
    if key in _IMPL_CACHE:
        return _IMPL_CACHE[key]
    res = None
    try:
        src = open(os.path.join(crate_dir, m.group(1))).read().split("\n")
        l0 = int(m.group(2)) - 1
        head = " ".join(x.strip() for x in src[l0:l0 + 6])
        head = head[int(m.group(3)) - 1:] if False else head
        hm = re.search(r"impl\s*(<.*?>)?\s*(.*?)\s*(\{|where)", head)
        if hm:
            h = hm.group(2)
            # strip leading generics remnants
            if " for " in h:
                tr, ty = h.split(" for ", 1)
                res = (re.sub(r"<.*", "", ty.strip()), re.sub(r"<.*", "", tr.strip()))
            else:
                res = (re.sub(r"<.*", "", h.strip()), None)
    except Exception:
        res = None
    _IMPL_CACHE[key] = res
    return res


def dump(crate_dir, scratch, features=("mmap",), default_features=False):
    """Run the nightly compiler and return the MIR text of the crate's lib."""
    env = dict(os.environ)
    env["CARGO_NET_OFFLINE"] = "true"
    env.pop("RUSTUP_TOOLCHAIN", None)
    libs = [os.path.join(crate_dir, "src", "lib.rs")]
    for l in libs:
        os.utime(l, None)
    cmd = ["cargo", "+nightly", "rustc", "--offline", "--lib", "--target-dir", os.path.join(scratch, "mir-target")]
    if not default_features:
        cmd.append("--no-default-features")
    if features:
        cmd += ["--features", ",".join(features)]
    cmd += ["--", "-Zunpretty=mir", "-Ztrim-diagnostic-paths=no", "-C", "debug-assertions=off"]
    t0 = time.time()
    p = subprocess.run(cmd, cwd=crate_dir, env=env, stdout=subprocess.PIPE, stderr=subprocess.PIPE, text=True)
    return p.returncode, p.stdout, p.stderr, time.time() - t0
