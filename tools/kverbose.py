#!/usr/bin/env python3
"""dev: build one harness, run cbmc with verbosity 9 into a log, print loop-unwinding histogram.
usage: kverbose.py <crate> <harness-filter> <timeout_s> [--fast] [--us rx:n]..."""
import sys, os, re, subprocess, tempfile, shutil
sys.path.insert(0, os.path.join(os.path.dirname(os.path.abspath(__file__)), "..", "lib"))
import kengine as K
a = sys.argv[1:]; crate = a.pop(0); flt = a.pop(0); to = int(a.pop(0)); us = []; extra = []
while a:
    x = a.pop(0)
    if x == "--us":
        r, b = a.pop(0).rsplit(":", 1); us.append((r, int(b)))
    elif x == "--fast": extra += ["--no-bounds-check", "--no-pointer-check"]
    elif x == "--cbmc": extra.append(a.pop(0))
td = tempfile.mkdtemp(prefix="vk-verb-")
try:
    hs, out, bt = K.build(crate, [flt], os.path.join(td, "target"), extra_kani_flags=["--no-assertion-reach-checks"])
    h = hs[0]; wd = os.path.join(td, "work"); os.makedirs(wd)
    g = K.prepare(h, wd)
    sel = []
    for lid in K.show_loops(g):
        for rx, b in us:
            if re.search(rx, lid):
                sel.append("%s:%d" % (lid, b)); break
    cmd = ["cbmc"] + K.CBMC_BASE + ["--unwind", str(h["attributes"].get("unwind_value") or 5)] + (["--unwindset", ",".join(sel)] if sel else []) + extra + [g, "--verbosity", "9"]
    log = "/tmp/kverbose.log"
    with open(log, "w") as f:
        try:
            subprocess.run(cmd, stdout=f, stderr=subprocess.STDOUT, timeout=to)
        except subprocess.TimeoutExpired:
            print("TIMEOUT")
    txt = open(log).read()
    hist = {}
    for m in re.finditer(r"Unwinding loop (\S+) iteration (\d+) .*? line (\d+) .*?function (\S+)", txt):
        k = (m.group(4)[:90], m.group(3)); hist[k] = hist.get(k, 0) + 1
    for k, v in sorted(hist.items(), key=lambda kv: -kv[1])[:15]:
        print(v, k)
    print("\n".join(l[:200] for l in txt.splitlines()[-6:] if "Unwinding" not in l))
finally:
    shutil.rmtree(td, ignore_errors=True)
