#!/usr/bin/env python3
"""Regenerates /verif/MANIFEST.json from the registry (run after changing registry*.py)."""
import json, os, subprocess, sys
HERE = os.path.dirname(os.path.abspath(__file__)); ROOT = os.path.join(HERE, "..")
sys.path.insert(0, ROOT); sys.path.insert(0, os.path.join(ROOT, "lib"))
import obligations as O

BASE = json.load(open("/root/.vp/BASELINE.json"))["cmd"] if os.path.exists("/root/.vp/BASELINE.json") else ""
LEVEL = {
 "C01": ("M", "Bounded symbolic execution of the real MIR of the commit / merge-publication / delete-file / managed-directory code: every path (call outcomes symbolic, loops unrolled 2x/4x, inlining depth <= 3/4) keeps the order 'files terminated -> directory synced -> meta.json replaced -> GC', stops before meta.json after any failed step and returns the error; the in-memory meta only follows a successful write; files are registered as managed before they are created; policy-driven merges of committed segments read the last commit's opstamp first. Decided by z3, cross-checked by cvc5; counterexamples are confirmed on the real code with a recording / fault-injecting Directory.",
         "over-approximated path set of the named functions only (no data flow beyond Result/Option/bool tags and a few integers); OS fsync semantics, multi-commit histories, thread interleavings and file contents are outside; rustc's MIR printer is trusted"),
 "C02": ("K+M", "Kernel level: the delete-visibility rule, the opstamp allocator, the alive-bitset algebra and its codec are decided for all inputs within the bounds by CBMC on the compiled code; the guard / loop structure of compute_deleted_bitset (break iff opstamp > target, remove only on is_deleted, one advance per op), advance_deletes, the merged segment's delete cursor (taken after advancing), the target opstamp of uncommitted merges and the memory-budget cut (only between run groups) by z3 on the MIR, the last three confirmed natively by replay-bin probes when violated.",
         "says nothing about registers, worker/updater schedules or whole operation histories (IndexWriter cannot be executed symbolically: threads, HashMap)"),
 "C03": ("K+M", "Kernel level: boolean combinators are decided to be set algebra under C13; here the phrase position kernels, the order-preserving value encodings, the fast-field range push-down, f64 / IP range bounds and bound_to_value_range are decided for all inputs within the bounds by CBMC; the bound transformations of integer literals on integer columns of another type are executed from the MIR as bit-vector programs and decided by z3 + cvc5 for all 64-bit literal / value pairs.",
         "which combinator BooleanWeight picks, term dictionaries / automata, real segments and collectors are outside"),
 "C05": ("M+K", "z3 over the MIR: the reader resolves meta.json and opens every segment file inside the META_LOCK window GC also takes, publishes a searcher only after a complete load, and opens all components eagerly; both flock branches are exclusive; committed-segment merges are targeted at the commit opstamp; CBMC: OwnedBytes views are stable.",
         "arc-swap atomicity, mmap page cache and real interleavings are reduced to lock-window obligations; the lock itself is C18"),
 "C06": ("K+M", "CBMC on the compiled collectors: TopNComputer and TopNHeap return exactly the best K with the address tie-break for every key sequence within the bounds (concrete K per harness), thresholds never reject a top-K member, block-max metadata is an upper bound; z3 over the MIR: merge_top_k pushes in address order, the pruning paths are preceded by their guards, and the guards (executed as bit-vector programs) pass only for scorers that read frequencies.",
         "block-WAND loops over real postings, executors and sort-key extraction are outside; K and the number of pushes are small and concrete"),
 "C07": ("K", "Codec level, CBMC: VInt family, posting-tail VInt, skip list write -> read -> seek for the three record options, in-block search (all sorted 128-arrays), field-norm code, bit-packer widths; term-key equality and arena copy of the indexing hash map (stacker fastcmp / fastcpy) for keys <= 40 / 70 bytes with memory-safety checks.",
         "fst dictionary, the arena hash map as a whole, SegmentWriter end-to-end, 128-value SIMD blocks and lists longer than 2 blocks + tail are outside"),
 "C08": ("K+M", "Codec level, CBMC: bit-packer round trip per width, monotonic mappings, range push-down through min/gcd, Line residual exactness condition, dense rank/select and sparse block kernels; stack merge of column indexes (rows-with-values of full / empty / legacy-v1 multivalued inputs shifted by the table offset); z3 over the columnar crate's MIR: the optional-index writer picks the block encoding by the reader's predicate.",
         "column serializers / readers end-to-end, codec selection, dictionary columns, shuffled merges and v2 inputs of the stack merge are outside"),
 "C10": ("M", "z3 over the MIR of ManagedDirectory::garbage_collect, SegmentUpdater::list_files and the commit task: living set and deletion candidates computed under both locks, only managed-and-not-living paths marked, bookkeeping persisted after sync, GC only after publication; emptied segments leave the committed register before it is listed, the temporary doc store is untracked on the published meta (both with native probes).",
         "inventory liveness under real schedules and 'no orphan after any history' are data-level statements outside the encoding"),
 "C11": ("M", "z3 over the MIR: for each storage-touching call on the commit / purge / merge / worker paths, the Err branch reaches the caller (or the merge future) and nothing after a failed step touches meta.json; in-memory meta only follows a successful write; no Result is dropped unexamined and no I/O-carrying Result goes through an error-erasing adapter (ok / unwrap_or* / flatten / filter_map ...) on these paths outside a justified allow-list (per-function scans).",
         "a fault at every operation of a whole workload on every thread, abort / hang freedom and recovery are outside"),
 "C12": ("K+M", "Arithmetic level, CBMC with IEEE f32: tf-factor range / monotonicity / antitonicity, cache component monotonicity, boost multiplication, idf argument domain, combiners, field-norm quantisation; z3 over the MIR of the merger: a source segment's token count is only estimated under has_deletes() = true (exact otherwise).",
         "ln is not modelled (idf is an uninterpreted finite input); statistics over segments and explain() strings are outside"),
 "C13": ("K+M", "CBMC: for each DocSet type built over symbolic leaves, every program of 2 (quick) / 3 (thorough) calls over {advance, seek(t)} (plus fill_buffer / fill_bitset_block / count in the thorough tier) observes the sorted sequence of the type's set semantics, seek(t) = first doc >= t, TERMINATED is sticky, score independent of the access path; phrase / phrase-prefix scorers over array postings; BufferedUnionScorer across a window refill from a fixed reachable state (assume-guarantee cut: two fill_buffer calls -> link state -> advance); z3 over the MIR of fill_buffer: every document handed out releases its score slot.",
         "leaves <= 3 docs, programs <= 3 calls; postings-backed scorers on real segments, BufferedUnionScorer programs starting at build() and its scores as values are outside (measured: 50 GB)"),
 "C15": ("K", "Kernel level, CBMC: sstable VInt, common prefix, separator-key contract and refusal of unordered pairs across block boundaries, order enforcement of Writer::insert_key, block selection of Dictionary::file_slice_for_range (with limit) on a v2 block index written down directly.",
         "block decoding / streaming, merges, the fst-based v3 index and automata are outside (measured infeasible)"),
 "C17": ("K+M", "Kernel level, CBMC: DocIdMapping inverse / remap on all permutations of 4, permutation validation, order-independence of the delete rule; z3 + cvc5 over the columnar crate's MIR: the u64 key a fresh segment is sorted by preserves the order of i64 / u64 values (all pairs).",
         "IndexMerger sort paths and per-structure remaps need segment readers and are outside"),
 "C18": ("K+M", "CBMC: the default lock implementation as a state machine (at most one live guard, acquire Ok iff free, failed acquire changes nothing); z3 over MIR: writer creation acquires INDEX_WRITER_LOCK before IndexWriter::new, rollback moves the guard without re-acquiring or dropping; the mmap lock is an exclusive flock; RamDirectory::open_write creates under one write-lock acquisition (race probe).",
         "flock semantics, RamDirectory (HashMap) and racing creations are reduced to the create-new assumption"),
 "C19": ("K", "Tightly bounded, CBMC: token offsets of Simple / Whitespace tokenizers on every valid UTF-8 text of 2-3 bytes with Unicode classification stubbed by an arbitrary class function; NgramTokenizer emits exactly the n-grams in order on char boundaries for every valid UTF-8 text of 3 bytes (4 in the thorough tier); snippet range merging.",
         "texts > 3-4 bytes, filters that rewrite text, the compound splitter, stemmers, regex, HTML escaping are outside; the stub makes no claim about which characters are letters"),
 "C20": ("K+M", "CBMC: FooterProxy hashes exactly the accepted bytes under short writes, version gate, CRC-32 (baseline implementation) detects single byte / bit damage and length change of small bodies; z3 over MIR: validate_checksum hashes the extracted body and compares with the footer and never returns an Ok verdict without having computed the CRC, open_read gates on is_compatible.",
         "SIMD CRC, JSON footers and wider damage are outside"),
}
REF = {k: "DESIGN.md §4 " + k for k in LEVEL}
NA = [
 {"property_id": "C04", "reason": "merging consumes real SegmentReaders; producing one needs the whole indexing pipeline (arena hash map, fst, Schema HashMap, uuid/getrandom), none of which CBMC executes in practical time, and the property is about data, which the MIR->SMT ordering engine does not model (DESIGN.md §4 C04)"},
 {"property_id": "C09", "reason": "measured: the smallest store codec (CheckpointBlock serialize->deserialize, 2 checkpoints) exhausts 24 GB under CBMC with and without VInt length classes; document codec, compression, LRU cache are larger; no ordering aspect for the MIR engine (DESIGN.md §4 C09)"},
 {"property_id": "C14", "reason": "bucket maps are FxHashMap/serde (not executable under CBMC); the one arithmetic kernel (f64 floor((v-offset)/interval) with symbolic interval) gives no answer in 600 s on either back end (DESIGN.md §4 C14)"},
 {"property_id": "C16", "reason": "the nom parser walks Unicode class tables over symbolic strings and the AST folding unrolls recursive drop glue: no answer at 2 leaves / 2 bytes; a string solver coupled to a Rust front end is not in this image (DESIGN.md §4 C16)"},
]

def main():
    props = sorted(LEVEL)
    hooks_commits = subprocess.run(["git", "-C", "/repo", "log", "--format=%H %s"], stdout=subprocess.PIPE, text=True).stdout.splitlines()
    hooks = [l.split()[0] for l in hooks_commits if "verif hooks" in l]
    checks = []
    for p in props:
        eng, text, note = LEVEL[p]
        checks.append({
            "property_id": p,
            "quick_cmd": "./check %s --tier quick" % p,
            "thorough_cmd": "./check %s --tier thorough" % p,
            "evidence_file": "/verif/evidence/%s.json" % p,
            "replay_cmd_template": "./check %s --replay {path}" % p,
            "engine": {"K": "kani-cbmc", "M": "mirproto", "K+M": "kani-cbmc + mirproto", "M+K": "mirproto + kani-cbmc"}[eng],
            "level_claimed": {"category": "model_checking", "text": text, "design_ref": REF[p]},
            "level_note": note,
            "technique": ("bounded model checking of the compiled Rust (Kani/CBMC + CaDiCaL) with unwinding assertions" if eng == "K" else
                          "symbolic execution of the MIR control-flow graph encoded to SMT (z3, cvc5 cross-check)" if eng == "M" else
                          "Kani/CBMC bounded model checking + MIR->SMT path encoding (z3/cvc5)"),
        })
    man = {
        "version": 1,
        "setup_cmd": "./setup.sh",
        "hooks": {
            "guard": "cfg(kani)",
            "enable": "hooks are `#[cfg(kani)] #[path = \"/verif/kani/<crate>/<file>.rs\"] mod verif_kani_<x>;` lines at the bottom of the source file whose private items a harness needs; only the Kani compiler sets cfg(kani) (`cargo kani --only-codegen`, run by ./check). mirproto needs no hooks (reads the nightly compiler's MIR dump).",
            "baseline_off_cmd": BASE,
            "source_commits": hooks,
            "add_only": True,
        },
        "engines": [
            {"name": "kani-cbmc", "path": "lib/kengine.py + kani/", "serves_properties": [p for p in props if "K" in LEVEL[p][0]],
             "kind_free_text": "Kani 0.68 compiles harnesses in-crate; our driver links/instruments each harness like kani-driver and runs CBMC 6.11 (CaDiCaL) with per-harness timeout, memory limit and per-loop unwindset; counterexamples replayed with Kani concrete playback natively"},
            {"name": "mirproto", "path": "mirproto/ + lib/mengine.py", "serves_properties": [p for p in props if "M" in LEVEL[p][0]],
             "kind_free_text": "nightly rustc -Zunpretty=mir of /repo parsed into CFGs, inlined + unrolled into a DAG, call outcomes symbolic, encoded to SMT-LIB and decided by z3 with cvc5 cross-check; native replay through replay-bin (recording / fault-injecting Directory)"},
        ],
        "checks": checks,
        "not_applicable": NA,
        "notes": "exit codes of ./check: 0 = nothing violated (KNOWN-FINDING lines for recorded findings), 1 = VIOLATION line with a replay path, 2 = build failure / nothing decided. A timed-out harness is listed as inconclusive in the evidence and never counted as discharged.",
    }
    json.dump(man, open(os.path.join(ROOT, "MANIFEST.json"), "w"), indent=1)
    print("wrote MANIFEST.json with", len(checks), "checks")

main()
