#!/usr/bin/env python3
"""dev: run M obligations matching a substring against a MIR file. usage: mtry.py <substr> [mirfile]"""
import sys, os, json
sys.path.insert(0,'/verif/lib'); sys.path.insert(0,'/verif')
os.environ['VERIF_MIR_FILE']=sys.argv[2] if len(sys.argv)>2 else '/tmp/mirscratch/tantivy2.mir'
import obligations as O, mengine
obls=[o for o in O.OBL if o['engine']=='M' and sys.argv[1] in o['id']]
for x in mengine.run(obls,'/tmp/mirscratch','quick'):
    print(x['verdict'].upper(), x['id'], x.get('reason') or '', 'queries=%s solver=%ss wall=%ss' % (x.get('queries'), x.get('solver_s'), x.get('wall_s')))
    for c in (x.get('detail') or {}).get('checks', []):
        print('    ', c['check'], 'nodes=%d' % c['nodes'], c.get('event_counts'), 'wit=%s z3=%s cvc5=%s %s' % (c.get('witness'), c.get('z3'), c.get('cvc5'), c.get('result','')))
    for f in x.get('failed', []):
        print('   FAILED', f['desc'])
        for s in f.get('path', []):
            if s.get('events') or s.get('return'): print('        ', json.dumps(s)[:300])
