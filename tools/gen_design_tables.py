#!/usr/bin/env python3
"""Writes /verif/OBLIGATIONS.md: the per-property obligation listing generated from the registry
(the authoritative list; DESIGN.md refers to it)."""
import os, sys, json
HERE = os.path.dirname(os.path.abspath(__file__)); ROOT = os.path.join(HERE, "..")
sys.path.insert(0, ROOT); sys.path.insert(0, os.path.join(ROOT, "lib"))
import obligations as O

out = ["# Obligations per property (generated from registry.py / registry_m.py — do not edit)", "",
       "`q` = runs in the quick tier, `t` = thorough tier. Engine K = Kani/CBMC harness (file under kani/), "
       "Engine M = mirproto obligation (MIR -> SMT). Quick-tier members of a *group* are alternated by VERIF_SEED.", ""]
props = sorted(set(o["prop"] for o in O.OBL))
for p in props:
    out.append("## %s" % p)
    out.append("")
    out.append("| obligation | eng | tiers | what is decided | real functions encoded | bounds |")
    out.append("|---|---|---|---|---|---|")
    for o in O.OBL:
        if o["prop"] != p:
            continue
        what = o.get("title", "")
        if o["engine"] == "M":
            checks = o["spec"].get("checks", [])
            what += " — checks: " + "; ".join(c[0] + "(" + ", ".join(str(x) for x in c[1:]) + ")" for c in checks)
        fns = ", ".join(o.get("functions", [])[:6])
        grp = (" [group %s]" % o["group"]) if o.get("group") else ""
        out.append("| %s%s | %s | %s | %s | %s | %s |" % (o["id"].split("/")[1], grp, o["engine"], o["tiers"],
                   what.replace("|", "\\|"), fns.replace("|", "\\|"), (o.get("bounds") or "").replace("|", "\\|")))
    out.append("")
open(os.path.join(ROOT, "OBLIGATIONS.md"), "w").write("\n".join(out))
print("wrote OBLIGATIONS.md:", len(O.OBL), "obligations")
