#!/bin/bash
# usage: tools/run_all.sh quick|thorough [props...]   - runs ./check for every claimed property, one after
# the other, prints one summary line each. With VP_RUN_REPO set (vp run --with-repo) the checks read that
# snapshot of the repository instead of /repo.
tier=${1:-quick}; shift
props=${@:-C01 C02 C03 C05 C06 C07 C08 C10 C11 C12 C13 C15 C17 C18 C19 C20}
[ -n "$VP_RUN_REPO" ] && export VERIF_REPO="$VP_RUN_REPO"
cd "$(dirname "$0")/.."
for p in $props; do
  s=$(date +%s)
  ./check $p --tier $tier > run_all-$tier-$p.log 2>&1
  rc=$?
  echo "$p tier=$tier rc=$rc $(( $(date +%s) - s ))s $(grep -c '^DISCHARGED' run_all-$tier-$p.log) discharged, $(grep -c '^INCONCLUSIVE ' run_all-$tier-$p.log) inconclusive, $(grep -c '^VIOLATION' run_all-$tier-$p.log) violations"
done
echo ALL-DONE
