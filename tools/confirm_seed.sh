#!/bin/bash
# usage: confirm_seed.sh <worktree> <seed-name> <demo-test-name: file under tests/ or "inline">
# confirms: patch applies, workspace test suite passes with it, demo fails with it and passes without it.
WT=$1; NAME=$2
cd "$WT" || exit 2
export CARGO_NET_OFFLINE=true
LOG=/tmp/confirm-$NAME.log
: > $LOG
git checkout -- . ; rm -f tests/seed_demo.rs
git apply seed/patch.diff || { echo "PATCH DOES NOT APPLY" | tee -a $LOG; exit 2; }
echo "== suite with patch" >> $LOG
cargo nextest run --workspace --no-fail-fast --tool-config-file pb:/w/lib/nextest.toml --profile pb --test-threads 6 --offline 2>&1 | tail -5 >> $LOG
cp seed/demo.rs tests/seed_demo.rs
echo "== demo with patch (expect FAIL)" >> $LOG
cargo test --offline --test seed_demo 2>&1 | grep -E "^test |test result|error" | tail -12 >> $LOG
git apply -R seed/patch.diff
echo "== demo without patch (expect ok)" >> $LOG
cargo test --offline --test seed_demo 2>&1 | grep -E "^test |test result|error" | tail -12 >> $LOG
rm -f tests/seed_demo.rs
git status --short >> $LOG
echo DONE >> $LOG
