#!/usr/bin/env python3
"""Re-runs, for every stored seed that a check is recorded to catch, exactly the catching obligations
against the patched /repo and reports whether the VIOLATION is still raised. usage: seed_regress.py [substr]"""
import json, os, subprocess, sys, glob, time
os.environ["VERIF_EVIDENCE_DIR"] = "/tmp/neutral-evidence"
flt = sys.argv[1] if len(sys.argv) > 1 else ""
ok = True
if subprocess.run(["git", "-C", "/repo", "diff", "--quiet"]).returncode != 0:
    print("/repo is dirty"); sys.exit(3)
for d in sorted(glob.glob("/verif/seeded/*")):
    name = os.path.basename(d)
    if flt not in name:
        continue
    m = json.load(open(os.path.join(d, "meta.json")))
    caught = (m.get("checks_result") or {}).get("caught_by") or []
    if not caught:
        print("%-62s (recorded as missed)" % name); continue
    if subprocess.run(["git", "-C", "/repo", "apply", os.path.join(d, "patch.diff")]).returncode != 0:
        print("%-62s PATCH DOES NOT APPLY" % name); ok = False; continue
    res = []
    t0 = time.time()
    try:
        for c in caught[:1]:
            prop, ob = c.split("/", 1)
            ob = ob.split(" ")[0]
            p = subprocess.run(["./check", prop, "--tier", "thorough" if "(thorough" in c or "phraseprefix" in ob and False else "quick", "--only", ob],
                               cwd="/verif", stdout=subprocess.PIPE, stderr=subprocess.STDOUT, text=True)
            hit = "VIOLATION property=%s" % prop in p.stdout
            res.append((c, p.returncode, hit))
    finally:
        subprocess.run(["git", "-C", "/repo", "checkout", "--", "."])
    good = all(h for _, _, h in res)
    ok = ok and good
    print("%-62s %s %ds %s" % (name, "still caught" if good else "NOT CAUGHT", time.time() - t0, [(c, rc) for c, rc, _ in res]), flush=True)
sys.exit(0 if ok else 1)
