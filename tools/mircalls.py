#!/usr/bin/env python3
import sys, re, os
sys.path.insert(0, '/verif/mirproto')
import mir
fs = mir.parse(open(os.environ.get('MIRF','/tmp/mirscratch/tantivy2.mir')).read())
rx = re.compile(sys.argv[1])
for name, fl in fs.items():
    if rx.search(name):
        for f in fl:
            print("==", name, len(f.blocks), "blocks")
            for b in f.order:
                blk = f.blocks[b]
                if blk.cleanup: continue
                if blk.kind == 'call':
                    print("  ", b, (blk.call['dest'] or '') , "=", blk.call['callee'][:170], blk.call['args'][:4], '->', blk.call['ret'])
                elif blk.kind == 'drop':
                    print("  ", b, "drop", blk.drop_local, f.types.get(blk.drop_local,'')[:80], '->', blk.succs)
                elif blk.kind == 'switch':
                    print("  ", b, "switch", blk.switch[0], blk.switch[1])
                elif blk.kind in ('return','other'):
                    print("  ", b, blk.kind, blk.term[:100])
