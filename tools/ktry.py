#!/usr/bin/env python3
"""Developer tool: build + run harnesses matching filters, print a table.
usage: ktry.py <crate> [--timeout N] [--workers N] [--mem G] [--us 'regex:bound'] filter...
"""
import sys, os, json, shutil, tempfile, time
sys.path.insert(0, os.path.join(os.path.dirname(os.path.abspath(__file__)), "..", "lib"))
import kengine as K

def main():
    a = sys.argv[1:]
    crate = a.pop(0)
    timeout, workers, mem, us, keep, extra = 600, 8, 20, [], False, []
    kflags = []
    xp = []
    filters = []
    while a:
        x = a.pop(0)
        if x == "--timeout": timeout = int(a.pop(0))
        elif x == "--workers": workers = int(a.pop(0))
        elif x == "--mem": mem = float(a.pop(0))
        elif x == "--us":
            r, b = a.pop(0).rsplit(":", 1); us.append((r, int(b)))
        elif x == "--keep": keep = True
        elif x == "--fast": extra += ["--no-bounds-check", "--no-pointer-check"]
        elif x == "--cbmc": extra.append(a.pop(0))
        elif x == "--nr": kflags.append("--no-assertion-reach-checks")
        elif x == "--xp": xp.append(a.pop(0))
        else: filters.append(x)
    td = tempfile.mkdtemp(prefix="vk-try-")
    try:
        hs, out, bt = K.build(crate, filters, os.path.join(td, "target"), extra_kani_flags=kflags)
        if hs is None:
            print(out[-6000:]); print("BUILD FAILED"); return 2
        print("built %d harnesses in %.0fs" % (len(hs), bt))
        wd = os.path.join(td, "work"); os.makedirs(wd)
        jobs = [(K.run_harness, (h, wd), dict(timeout=timeout, mem_gb=mem, unwindset=us, extra_cbmc=extra, expected_panics=xp)) for h in hs]
        t0 = time.time()
        rs = K.run_many(jobs, workers)
        for r in sorted(rs, key=lambda r: r.get("harness_pretty", "")):
            st = r.get("stats", {})
            print("%-60s %-12s wall=%6.1fs rss=%sMB steps=%s vccs=%s solver=%.1fs covers=%s unreach=%s %s" % (
                r.get("harness_pretty", "?").split("::")[-1], r["verdict"], r.get("wall_s", 0), r.get("peak_rss_mb"),
                st.get("program_steps"), st.get("vccs_remaining"), st.get("solver_s", 0),
                "".join("S" if c["satisfied"] else "u" for c in r.get("covers", [])),
                r.get("harness_asserts_unreachable"), r.get("reason", "")))
            for f in r.get("failed", [])[:6]:
                print("     FAILED:", f["class"], f["desc"][:120], f["file"], f["line"])
            for f in r.get("unwinding_failed", [])[:6]:
                print("     UNWIND:", f["desc"][:80], f["file"], f["line"], f["function"])
        print("total wall %.0fs" % (time.time() - t0))
        json.dump(rs, open("/tmp/ktry-last.json", "w"), indent=1)
    finally:
        if not keep:
            shutil.rmtree(td, ignore_errors=True)
        else:
            print("kept", td)

sys.exit(main())
