#!/bin/bash
# usage: neutral_eval.sh <patch.diff> <label> [props...]  - applies a behaviour-preserving patch to /repo, runs
# the quick checks, restores /repo. Every check must exit 0 (quiet); exit 2 = cannot decide; 1 = false alarm.
patch=$1; label=$2; shift 2
props=${@:-C01 C02 C03 C05 C06 C07 C08 C10 C11 C12 C13 C15 C17 C18 C19 C20}
cd /verif
export VERIF_EVIDENCE_DIR=/tmp/neutral-evidence; mkdir -p $VERIF_EVIDENCE_DIR
git -C /repo diff --quiet || { echo "/repo is dirty"; exit 3; }
git -C /repo apply "$patch" || { echo "patch does not apply"; exit 3; }
for p in $props; do
  ./check $p --tier quick > /tmp/neutral-$label-$p.log 2>&1
  rc=$?
  echo "$label $p rc=$rc $(grep -c '^DISCHARGED' /tmp/neutral-$label-$p.log) discharged $(grep -E '^(VIOLATED|INCONCLUSIVE) ' /tmp/neutral-$label-$p.log | cut -c1-160 | tr '\n' ';')"
done
git -C /repo checkout -- .
