#!/usr/bin/env python3
"""usage: store_seed.py <worktree> <name> <PROP> <confirm-log> <caught_by csv or ''> <verdict text>"""
import json, sys, os, shutil
wt, name, prop, log, caught, verdict = sys.argv[1:7]
d = os.path.join('/verif/seeded', name); os.makedirs(d, exist_ok=True)
shutil.copy(os.path.join(wt, 'seed/patch.diff'), d); shutil.copy(os.path.join(wt, 'seed/demo.rs'), d)
m = json.load(open(os.path.join(wt, 'seed/meta.json')))
m['property'] = prop
m['confirmed_by_me'] = {'log': open(log).read(), 'procedure': 'tools/confirm_seed.sh: full baseline suite (cargo nextest --workspace, 1547 tests) passes with the patch; demo fails with the patch and passes without it'}
m['checks_result'] = {'caught_by': [c for c in caught.split(',') if c], 'verdict': verdict, 'procedure': 'git -C /repo apply patch.diff; ./check <prop> --tier quick|thorough; git -C /repo checkout -- .'}
json.dump(m, open(os.path.join(d, 'meta.json'), 'w'), indent=1)
print('stored', d)
