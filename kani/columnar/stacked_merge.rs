// Kani harnesses compiled inside `tantivy_columnar::column_index::merge::stacked`.
// C08: stacking columnar tables. The row ids that hold values, and the per-row value counts, of
// a stacked column index are those of the inputs shifted by the offset of their table.
// The multivalued start-offset column is an array-backed `ColumnValues` (the trait object the
// real code reads through); 3 rows, symbolic offsets.
#![allow(dead_code)]
use std::sync::Arc;

use super::*;
use crate::column_index::multivalued_index::MultiValueIndexV1;
use crate::ColumnValues;

struct ArrCol {
    vals: [u32; 4],
}

impl ColumnValues<u32> for ArrCol {
    fn get_val(&self, idx: u32) -> u32 {
        self.vals[idx as usize]
    }
    fn min_value(&self) -> u32 {
        self.vals[0]
    }
    fn max_value(&self) -> u32 {
        self.vals[3]
    }
    fn num_vals(&self) -> u32 {
        4
    }
}

fn any_v1() -> ([u32; 4], ColumnIndex) {
    let s: [u32; 4] = kani::any();
    kani::assume(s[0] == 0 && s[0] <= s[1] && s[1] <= s[2] && s[2] <= s[3] && s[3] < 1000);
    let col: Arc<dyn ColumnValues<u32>> = Arc::new(ArrCol { vals: s });
    (s, ColumnIndex::Multivalued(MultiValueIndex::MultiValueIndexV1(MultiValueIndexV1 { start_index_column: col })))
}

/// legacy (v1) multivalued index at any table offset: rows with at least one value, shifted
#[kani::proof]
#[kani::unwind(6)]
fn c08_stacked_rows_with_values_multivalued_v1() {
    let (s, ci) = any_v1();
    let start: u32 = kani::any();
    kani::assume(start < 100_000);
    let mut it = get_doc_ids_with_values(&ci, start..start + 3);
    let mut d = 0u32;
    while d < 3 {
        if s[d as usize + 1] > s[d as usize] {
            assert_eq!(it.next(), Some(start + d));
        }
        d += 1;
    }
    assert_eq!(it.next(), None);
    kani::cover!(start > 0 && s[1] == 0 && s[2] > 0, "second table, first row empty");
    std::mem::forget(it);
    std::mem::forget(ci);
}

/// full / empty inputs
#[kani::proof]
#[kani::unwind(6)]
fn c08_stacked_rows_with_values_full_and_empty() {
    let start: u32 = kani::any();
    let n: u32 = kani::any();
    kani::assume(start < 100_000 && n <= 3);
    let full = ColumnIndex::Full;
    let empty = ColumnIndex::Empty { num_docs: n };
    let mut it = get_doc_ids_with_values(&full, start..start + n);
    let mut d = 0u32;
    while d < 3 {
        if d < n {
            assert_eq!(it.next(), Some(start + d));
        }
        d += 1;
    }
    assert_eq!(it.next(), None);
    let mut it2 = get_doc_ids_with_values(&empty, start..start + n);
    assert_eq!(it2.next(), None);
    kani::cover!(n == 3 && start > 0);
    std::mem::forget(it);
    std::mem::forget(it2);
}

// (the same count for a v1 multivalued input goes through `Box<dyn Iterator>` + scan + skip and
// did not finish symbolic execution in 600 s: not claimed)

/// value counts per row of a full input: one each
#[kani::proof]
#[kani::unwind(7)]
fn c08_stacked_num_values_per_row_full() {
    let n: u32 = kani::any();
    kani::assume(n <= 3);
    let full = ColumnIndex::Full;
    let mut itf = get_num_values_iterator(&full, n);
    let mut k = 0;
    while k < 3 {
        if k < n {
            assert_eq!(itf.next(), Some(1));
        }
        k += 1;
    }
    assert_eq!(itf.next(), None);
    kani::cover!(n == 3);
    std::mem::forget(itf);
}
