// Kani harnesses compiled inside `tantivy_columnar::column_values::u64_based::bitpacked`.
// C08 / C03: range push-down through the linear transformation of the bit-packed codec:
//   value = min_value + gcd * packed ;   value in range  <=>  packed in transformed range
#![allow(dead_code)]
use super::*;

fn range_transform<const GCD: u64>() {
    let min_value: u64 = kani::any();
    let packed: u64 = kani::any();
    // a value the column can really hold: no overflow of min + gcd*packed
    kani::assume(packed <= (1u64 << 40));
    kani::assume(min_value <= u64::MAX - GCD * (1u64 << 40));
    let value = min_value + GCD * packed;
    let max_value: u64 = kani::any();
    kani::assume(max_value >= value);
    let stats = ColumnStats { gcd: NonZeroU64::new(GCD).unwrap(), min_value, max_value, num_rows: 1 };
    let (lo, hi): (u64, u64) = (kani::any(), kani::any());
    let in_range = lo <= value && value <= hi;
    match transform_range_before_linear_transformation(&stats, lo..=hi) {
        None => assert!(!in_range),
        Some(r) => assert!(r.contains(&packed) == in_range),
    }
    kani::cover!(in_range && packed > 0);
    kani::cover!(hi < min_value, "range entirely below the column");
}

#[kani::proof]
fn c08_range_transform_gcd1() {
    range_transform::<1>();
}
#[kani::proof]
fn c08_range_transform_gcd2() {
    range_transform::<2>();
}
#[kani::proof]
fn c08_range_transform_gcd3() {
    range_transform::<3>();
}
#[kani::proof]
fn c08_range_transform_gcd10() {
    range_transform::<10>();
}
#[kani::proof]
fn c08_range_transform_gcd1000() {
    range_transform::<1000>();
}

/// number of bits announced by the codec is enough for every packed value
#[kani::proof]
fn c08_num_bits_sufficient() {
    let amp: u64 = kani::any();
    let nb = compute_num_bits(amp);
    assert!(nb <= 64);
    if nb < 64 {
        assert!(amp < (1u64 << nb));
    }
    // minimal among the widths a BitUnpacker accepts (0..=56 and 64)
    if nb > 0 && nb <= 56 {
        assert!(amp >= (1u64 << (nb - 1)));
    }
    if nb == 64 {
        assert!(amp >= (1u64 << 56));
    }
    // BitUnpacker::new accepts only widths <= 56 or 64
    assert!(nb <= 56 || nb == 64);
    kani::cover!(nb == 64);
}

/// C03 (summary used by M03-1): the column-side order-preserving maps are the ones modelled:
/// i64 -> common::i64_to_u64 (= (x as u64) ^ 2^63), u64 -> identity
#[kani::proof]
fn c03_monotonic_map_definitions() {
    use crate::MonotonicallyMappableToU64;
    let x: i64 = kani::any();
    assert_eq!(MonotonicallyMappableToU64::to_u64(x), (x as u64) ^ (1u64 << 63));
    assert_eq!(<i64 as MonotonicallyMappableToU64>::from_u64(MonotonicallyMappableToU64::to_u64(x)), x);
    let y: u64 = kani::any();
    assert_eq!(MonotonicallyMappableToU64::to_u64(y), y);
    assert_eq!(<u64 as MonotonicallyMappableToU64>::from_u64(y), y);
    kani::cover!(x < 0);
}
