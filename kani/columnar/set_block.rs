// Kani harnesses compiled inside `tantivy_columnar::column_index::optional_index::set_block::dense`
// and `...::sparse` (two hooks, same file is not possible: see sparse_block.rs).
// C08: rank/select kernels of the dense block on one 64-bit word.
#![allow(dead_code)]
use super::*;

#[kani::proof]
#[kani::unwind(9)]
fn c08_dense_rank_select_word() {
    let bv: u64 = kani::any();
    let el: u16 = kani::any();
    kani::assume(el < 64);
    let r = rank_u64(bv, el);
    // rank = number of set bits strictly below el
    assert!(r as u32 == (bv & ((1u64 << el) - 1)).count_ones());
    if get_bit_at(bv, el) && r < 8 {
        // select is the inverse of rank on members (select loops `rank` times: ranks < 8 here)
        assert!(select_u64(bv, r) == el);
    }
    let k: u16 = kani::any();
    kani::assume((k as u32) < bv.count_ones() && k < 8);
    let s = select_u64(bv, k);
    assert!(s < 64 && get_bit_at(bv, s) && rank_u64(bv, s) == k);
    kani::cover!(bv.count_ones() > 10);
}

#[kani::proof]
fn c08_dense_bit_accessors() {
    let mut bv: u64 = kani::any();
    let n: u16 = kani::any();
    kani::assume(n < 64);
    let before = bv;
    set_bit_at(&mut bv, n);
    assert!(get_bit_at(bv, n));
    assert!(bv | (1u64 << n) == bv && bv & !(1u64 << n) == before & !(1u64 << n));
    kani::cover!(n == 63);
}
