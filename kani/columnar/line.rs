// Kani harnesses compiled inside `tantivy_columnar::column_values::u64_based::line`.
// C08: exactness condition of the linear codecs: for the trained line, every
// `y_i - eval(i)` (wrapping) is a small non-negative residual bounded by the maximum residual
// the estimator/serializer computes the bit width from. Here: the intercept makes every
// residual of the trained points >= 0 in the wrapping order used (min_by_key), i.e.
// residual_i = y_i - eval(i) satisfies residual_i - min_residual_shifted ordering.
#![allow(dead_code)]
use super::*;

#[kani::proof]
#[kani::unwind(6)]
fn c08_line_residuals_nonnegative_small() {
    // 4 points: base + small offsets (small < 2^12): the regime of real columns
    let base: u64 = kani::any();
    let off: [u16; 4] = kani::any();
    let ys = [
        base.wrapping_add((off[0] & 0xfff) as u64),
        base.wrapping_add((off[1] & 0xfff) as u64),
        base.wrapping_add((off[2] & 0xfff) as u64),
        base.wrapping_add((off[3] & 0xfff) as u64),
    ];
    let line = Line::train_from(ys[0], ys[3], 4, ys.iter().enumerate().map(|(i, y)| (i as u64, *y)));
    // residuals (what the linear codec bit-packs) are < 2^14 for every trained point:
    // reconstruction  eval(i) + residual_i == y_i  then holds with a 14-bit residual
    let i: usize = kani::any();
    kani::assume(i < 4);
    let residual = ys[i].wrapping_sub(line.eval(i as u32));
    assert!(residual < (1u64 << 14));
    assert!(line.eval(i as u32).wrapping_add(residual) == ys[i]);
    kani::cover!(off[0] & 0xfff > off[3] & 0xfff, "decreasing column");
}

#[kani::proof]
fn c08_line_single_value() {
    let y: u64 = kani::any();
    let line = Line::train_from(y, y, 1, std::iter::once((0u64, y)));
    assert!(line.slope == 0 && line.intercept == 0);
    kani::cover!(true);
}
