// Kani harnesses compiled inside `...::optional_index::set_block::sparse`.
// C08: sparse block (sorted u16 list): contains / rank / select against the definition.
#![allow(dead_code)]
use super::*;

#[kani::proof]
#[kani::unwind(6)]
fn c08_sparse_block_rank_select() {
    let n: usize = kani::any();
    kani::assume(n <= 4);
    let els: [u16; 4] = kani::any();
    kani::assume(n < 2 || els[0] < els[1]);
    kani::assume(n < 3 || els[1] < els[2]);
    kani::assume(n < 4 || els[2] < els[3]);
    let mut bytes = [0u8; 8];
    let mut i = 0;
    while i < 4 {
        let b = els[i].to_le_bytes();
        bytes[2 * i] = b[0];
        bytes[2 * i + 1] = b[1];
        i += 1;
    }
    let blk = SparseBlockCodec::open(&bytes[..2 * n]);
    let q: u16 = kani::any();
    let mut below = 0u16;
    let mut member = false;
    let mut i = 0;
    while i < 4 {
        if i < n {
            if els[i] < q {
                below += 1;
            }
            if els[i] == q {
                member = true;
            }
        }
        i += 1;
    }
    assert!(blk.contains(q) == member);
    assert!(blk.rank(q) == below);
    assert!(blk.rank_if_exists(q) == if member { Some(below) } else { None });
    let k: u16 = kani::any();
    kani::assume((k as usize) < n);
    assert!(Set::select(&blk, k) == els[k as usize]);
    kani::cover!(n == 4 && member);
}
