// Kani harnesses compiled inside `tantivy_columnar::column_values::u128_based::compact_space`
// (hook at the bottom of compact_space/mod.rs).
// C08: the u128 (IP address) codec maps every stored value into a dense "compact space" and back.
#![allow(dead_code)]
use super::*;

/// Three covered ranges written down directly under the representation invariant that
/// `CompactSpace::deserialize` / `get_compact_space` establish: sorted, pairwise disjoint,
/// compact_start(0) = 1 (0 = null) and compact_start(i+1) = compact_start(i) + len(i).
fn any_space() -> (CompactSpace, [u128; 3], [u128; 3]) {
    let s0: u128 = kani::any();
    let (l0, l1, l2): (u32, u32, u32) = (kani::any(), kani::any(), kani::any());
    let (g1, g2): (u128, u128) = (kani::any(), kani::any());
    kani::assume(l0 < (1 << 24) && l1 < (1 << 24) && l2 < (1 << 24));
    kani::assume(g1 >= 1 && g2 >= 1);
    kani::assume(s0 < (1u128 << 126) && g1 < (1u128 << 126) && g2 < (1u128 << 125));
    let e0 = s0 + l0 as u128;
    let s1 = e0 + g1;
    let e1 = s1 + l1 as u128;
    let s2 = e1 + g2;
    let e2 = s2 + l2 as u128;
    let c0 = 1u32;
    let c1 = c0 + l0 + 1;
    let c2 = c1 + l1 + 1;
    let space = CompactSpace {
        ranges_mapping: vec![
            RangeMapping { value_range: s0..=e0, compact_start: c0 },
            RangeMapping { value_range: s1..=e1, compact_start: c1 },
            RangeMapping { value_range: s2..=e2, compact_start: c2 },
        ],
    };
    (space, [s0, s1, s2], [e0, e1, e2])
}

/// value -> compact -> value is the identity on covered values, lands inside the range's own
/// compact interval, is strictly monotone, and an uncovered value reports the insertion position.
#[kani::proof]
#[kani::unwind(5)]
fn c08_compact_space_value_roundtrip() {
    let (space, s, e) = any_space();
    let (v, w): (u128, u128) = (kani::any(), kani::any());
    let mut covered = 3usize;
    let mut below = 0usize;
    let mut i = 0;
    while i < 3 {
        if s[i] <= v && v <= e[i] {
            covered = i;
        }
        if e[i] < v {
            below += 1;
        }
        i += 1;
    }
    match space.u128_to_compact(v) {
        Ok(c) => {
            assert!(covered < 3);
            let rm = space.get_range_mapping(covered);
            assert!(rm.compact_start <= c && c <= rm.compact_end());
            assert!(space.compact_to_u128(c) == v);
            if let Ok(cw) = space.u128_to_compact(w) {
                assert!((v < w) == (c < cw));
            }
        }
        Err(pos) => {
            assert!(covered == 3);
            assert!(pos == below);
        }
    }
    kani::cover!(covered == 1);
    kani::cover!(covered == 3 && below == 2);
    std::mem::forget(space);
}

/// compact -> value -> compact is the identity on 1..=amplitude.
#[kani::proof]
#[kani::unwind(5)]
fn c08_compact_space_compact_roundtrip() {
    let (space, s, e) = any_space();
    let c: u32 = kani::any();
    kani::assume(c >= 1 && (c as u128) <= space.amplitude_compact_space());
    let v = space.compact_to_u128(c);
    assert!((s[0] <= v && v <= e[0]) || (s[1] <= v && v <= e[1]) || (s[2] <= v && v <= e[2]));
    assert!(space.u128_to_compact(v) == Ok(c));
    kani::cover!(v == s[2]);
    std::mem::forget(space);
}
