// Kani harnesses compiled inside `tantivy::query::bm25`.
// C12: shape of the BM25 score arithmetic. C06: pruning bounds derived from it.
// `Bm25Weight` is built in-module with ONE symbolic cache entry at a symbolic id (building the
// 256-entry cache from a symbolic average does not answer under CBMC); `cached_tf_component`
// is checked separately.
#![allow(dead_code)]
use super::*;

fn weight_with_entry(weight: Score, id: u8, norm: Score) -> Bm25Weight {
    let mut cache = [1.0f32; 256];
    cache[id as usize] = norm;
    Bm25Weight { idf_explain: None, weight, cache: Arc::new(cache), average_fieldnorm: 1.0 }
}

/// the range a cache entry can take: K1*(1-B) <= norm (fieldnorm 0) and finite
fn norm_in_range(norm: Score) -> bool {
    norm >= 0.3 && norm <= 1.0e30
}

/// K12-2: tf_factor in [0,1], 0 at tf=0, monotone in tf, antitone in norm; score = weight * tf_factor
#[kani::proof]
fn c12_tf_factor_shape() {
    let id: u8 = kani::any();
    let norm: Score = kani::any();
    kani::assume(norm_in_range(norm));
    let w: Score = kani::any();
    kani::assume(w >= 0.0 && w <= 1.0e6);
    let bw = weight_with_entry(w, id, norm);
    let tf: u32 = kani::any();
    let f = bw.tf_factor(id, tf);
    assert!(f >= 0.0 && f <= 1.0);
    if tf == 0 {
        assert!(f == 0.0);
    }
    assert!(bw.score(id, tf) == w * f);
    // monotone in tf
    let tf2: u32 = kani::any();
    kani::assume(tf2 >= tf);
    assert!(bw.tf_factor(id, tf2) >= f);
    kani::cover!(tf > 0 && f < 1.0);
    std::mem::forget(bw);
}

#[kani::proof]
fn c12_tf_factor_antitone_in_norm() {
    let id: u8 = kani::any();
    let (n1, n2): (Score, Score) = (kani::any(), kani::any());
    kani::assume(norm_in_range(n1) && norm_in_range(n2) && n1 <= n2);
    let tf: u32 = kani::any();
    let b1 = weight_with_entry(1.0, id, n1);
    let b2 = weight_with_entry(1.0, id, n2);
    assert!(b1.tf_factor(id, tf) >= b2.tf_factor(id, tf));
    kani::cover!(n1 < n2 && tf > 0);
    std::mem::forget(b1);
    std::mem::forget(b2);
}

/// cached_tf_component is monotone in the field norm and >= K1*(1-B) for a positive average
#[kani::proof]
fn c12_cached_tf_component_monotone() {
    let (f1, f2): (u32, u32) = (kani::any(), kani::any());
    kani::assume(f1 <= f2);
    let avg: Score = kani::any();
    kani::assume(avg >= 1.0e-3 && avg <= 1.0e9);
    let c1 = cached_tf_component(f1, avg);
    let c2 = cached_tf_component(f2, avg);
    assert!(c1 <= c2);
    assert!(c1 >= K1 * (1.0 - B) - 1.0e-6);
    kani::cover!(f1 < f2);
}

/// boost_by multiplies the weight, boost 1.0 is the identity
#[kani::proof]
fn c12_boost_by() {
    let w: Score = kani::any();
    kani::assume(w >= 0.0 && w <= 1.0e6);
    let b: Score = kani::any();
    kani::assume(b >= 0.0 && b <= 1.0e6);
    let bw = weight_with_entry(w, 3, 2.0);
    let bb = bw.boost_by(b);
    assert!(bb.weight == w * b);
    let tf: u32 = kani::any();
    if b == 1.0 {
        assert!(bb.score(3, tf) == bw.score(3, tf));
    }
    assert!(bb.score(3, tf) == (w * b) * bw.tf_factor(3, tf));
    kani::cover!(b == 1.0);
    std::mem::forget(bw);
    std::mem::forget(bb);
}

/// K12-4: the idf argument is non-negative for n <= N (so ln(1+x) >= 0); weight = idf*(1+K1)
#[kani::proof]
fn c12_idf_argument_domain() {
    let n: u64 = kani::any();
    let big_n: u64 = kani::any();
    kani::assume(n <= big_n && big_n < (1u64 << 40));
    let x = ((big_n - n) as Score + 0.5) / (n as Score + 0.5);
    assert!(x > 0.0 && x.is_finite());
    kani::cover!(n == big_n);
}

/// C06 / K06-4 (range part, one division): tf_factor never exceeds 1 and is 0 only at tf = 0,
/// so weight * tf_factor(block pair) with the decoded (>=) term frequency bounds the block.
#[kani::proof]
fn c12_tf_factor_range() {
    let id: u8 = kani::any();
    let norm: Score = kani::any();
    kani::assume(norm_in_range(norm));
    let bw = weight_with_entry(1.0, id, norm);
    let tf: u32 = kani::any();
    let f = bw.tf_factor(id, tf);
    assert!(f >= 0.0 && f <= 1.0);
    assert!((f == 0.0) == (tf == 0));
    kani::cover!(tf > 0 && f < 1.0);
    std::mem::forget(bw);
}
