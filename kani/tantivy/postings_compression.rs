// Kani harnesses compiled inside `tantivy::postings::compression`.
// C07: posting tail VInt codec, in-block k-ary search.
#![allow(dead_code)]
use super::*;

/// search_block = lower bound on every sorted 128-array, every target <= last
#[kani::proof]
#[kani::unwind(130)]
fn c07_search_block_lower_bound() {
    let arr: [u32; COMPRESSION_BLOCK_SIZE] = kani::any();
    let mut i = 1;
    while i < COMPRESSION_BLOCK_SIZE {
        kani::assume(arr[i - 1] <= arr[i]);
        i += 1;
    }
    let target: u32 = kani::any();
    kani::assume(target <= arr[COMPRESSION_BLOCK_SIZE - 1]);
    let idx = crate::postings::search_block(&arr, target);
    assert!(idx < COMPRESSION_BLOCK_SIZE);
    assert!(arr[idx] >= target);
    if idx > 0 {
        assert!(arr[idx - 1] < target);
    }
    kani::cover!(idx == 77, "interior result");
}

/// VInt tail (doc ids, delta encoded): decode(encode(xs, offset), offset) = xs, bytes consumed
/// = bytes produced, for <= 3 strictly increasing full-width ids.
#[kani::proof]
#[kani::unwind(7)]
fn c07_vint_tail_sorted_roundtrip() {
    let n: usize = kani::any();
    kani::assume(n >= 1 && n <= 3);
    let offset: u32 = kani::any();
    let xs: [u32; 3] = kani::any();
    // the serializer passes doc ids > the last doc of the previous block (or >= 0 for the first)
    kani::assume(xs[0] >= offset);
    kani::assume(n < 2 || xs[1] > xs[0]);
    kani::assume(n < 3 || xs[2] > xs[1]);
    let mut out = [0u8; 16];
    let written = vint::compress_sorted(&xs[..n], &mut out, offset).len();
    assert!(written >= n && written <= 5 * n);
    let mut back = [0u32; 3];
    let read = vint::uncompress_sorted(&out[..written], &mut back[..n], offset);
    assert!(read == written);
    let j: usize = kani::any();
    kani::assume(j < n);
    assert!(back[j] == xs[j]);
    kani::cover!(n == 3 && written == 15, "all five-byte deltas");
}

/// VInt tail (term freqs, not delta encoded)
#[kani::proof]
#[kani::unwind(7)]
fn c07_vint_tail_unsorted_roundtrip() {
    let n: usize = kani::any();
    kani::assume(n >= 1 && n <= 3);
    let xs: [u32; 3] = kani::any();
    let mut out = [0u8; 16];
    let written = vint::compress_unsorted(&xs[..n], &mut out).len();
    let mut back = [0u32; 3];
    let read = vint::uncompress_unsorted(&out[..written], &mut back[..n]);
    assert!(read == written);
    let j: usize = kani::any();
    kani::assume(j < n);
    assert!(back[j] == xs[j]);
    // the "until end" variant recovers the count from the byte length
    let mut back2 = [0u32; 3];
    let cnt = vint::uncompress_unsorted_until_end(&out[..written], &mut back2);
    assert!(cnt == n);
    assert!(back2[j] == xs[j]);
    kani::cover!(n == 3 && written == 3, "all one-byte values");
}

#[kani::proof]
fn c07_compressed_block_size() {
    let nb: u8 = kani::any();
    kani::assume(nb <= 64);
    assert!(compressed_block_size(nb) == nb as usize * 16);
    kani::cover!(nb == 33);
}
