// Kani harnesses compiled inside `tantivy::query::union::buffered_union` (private fields).
// C13 / C12: BufferedUnionScorer across a window refill, driven by `fill_buffer` and `advance`.
//
// The 4096-id window makes programs that start from `build()` unaffordable (64-bucket loops
// around every refill, see DESIGN.md §9). The harness therefore starts from a fixed *reachable*
// state written down directly and continues symbolically:
//
//   A = {0} ∪ [3968, 4096) with score 1, B = {5000, b1} with 5000 < b1 < 12000 (b1 symbolic) and score 2;
//   after `build()` and `seek(3968)` the union is on doc 3968, bucket 62, window [0, 4096):
//   bucket 62 holds 3969..4031, bucket 63 holds 4032..4095, every buffered slot carries score 1,
//   A is exhausted (removed), B waits at b0.
//
// Programs that go on after the refill with `advance` do not answer in one piece (the merged
// return states of `fill_buffer` make every later bucket index symbolic: 29 GB). They are cut in
// two, assume-guarantee style:
//   piece A  S0 --fill_buffer, fill_buffer--> asserts the observations AND that the scorer is
//            in state S1(b1) (the *link*: window start, bucket, pending bits, pending scores,
//            remaining scorers), read through a symbolic bucket / slot index;
//   piece B  S1(b1) (written down directly) --advance, advance--> ids and scores.
// The link is stated on the private representation; a refactoring that changes the
// representation needs S1 rewritten (the harness then fails on the link, not on an observation).
#![allow(dead_code)]
use super::*;
use crate::query::verif_kani_query::Arr;
use crate::query::score_combiner::{DoNothingCombiner, ScoreCombiner, SumCombiner};
use crate::query::ConstScorer;

fn state_after_seek_3968<C: ScoreCombiner + Default>(b: Arr) -> BufferedUnionScorer<ConstScorer<Arr>, C> {
    let mut bitsets = Box::new([TinySet::empty(); HORIZON_NUM_TINYBITSETS]);
    bitsets[62] = TinySet::full().remove(0);
    bitsets[63] = TinySet::full();
    let mut scores = Box::new([C::default(); HORIZON as usize]);
    let one = ConstScorer::new(Arr { docs: [0, 0, 0], len: 1, cur: 0 }, 1.0);
    let mut one = one;
    let mut slot = 3969usize;
    while slot < 4096 {
        scores[slot].update(&mut one);
        slot += 1;
    }
    BufferedUnionScorer {
        docsets: vec![ConstScorer::new(b, 2.0)],
        bitsets,
        bucket_idx: 62,
        scores,
        window_start_doc: 0,
        doc: 3968,
        score: 1.0,
        num_docs: 12000,
    }
}

fn any_b() -> Arr {
    let docs: [DocId; 3] = kani::any();
    // b0 is concrete: with a symbolic window start the position of b0's own bit is symbolic for
    // CBMC (it does not fold `b0 - b0`), every later bucket index becomes symbolic and the array
    // constraints exhaust memory (measured: 29 GB). b1 stays symbolic.
    kani::assume(docs[0] == 5000 && docs[0] < docs[1] && docs[1] < 12000);
    Arr { docs: [5000, docs[1], docs[2]], len: 2, cur: 0 }
}

/// expected pending bits of bucket `i` in S1: only b1, when it lies in the window of b0
fn s1_bits(i: usize, b0: DocId, b1: DocId) -> u64 {
    let delta = b1 - b0;
    if delta < HORIZON && (delta / 64) as usize == i {
        1u64 << (delta % 64)
    } else {
        0
    }
}

/// S1(b1): the state the two fills must leave behind
fn state_s1<C: ScoreCombiner + Default>(b: Arr) -> BufferedUnionScorer<ConstScorer<Arr>, C> {
    let (b0, b1) = (b.docs[0], b.docs[1]);
    let delta = b1 - b0;
    let mut bitsets = Box::new([TinySet::empty(); HORIZON_NUM_TINYBITSETS]);
    let mut scores = Box::new([C::default(); HORIZON as usize]);
    let mut docsets = Vec::with_capacity(2);
    if delta < HORIZON {
        bitsets[(delta / 64) as usize].insert_mut(delta % 64);
        let mut two = ConstScorer::new(Arr { docs: [0, 0, 0], len: 1, cur: 0 }, 2.0);
        scores[delta as usize].update(&mut two);
    } else {
        docsets.push(ConstScorer::new(Arr { docs: b.docs, len: 2, cur: 1 }, 2.0));
    }
    BufferedUnionScorer { docsets, bitsets, bucket_idx: 0, scores, window_start_doc: b0, doc: b0, score: 2.0, num_docs: 12000 }
}

fn two_fills_link<C: ScoreCombiner + Default>() -> (BufferedUnionScorer<ConstScorer<Arr>, C>, DocId, DocId) {
    let b = any_b();
    let (b0, b1) = (b.docs[0], b.docs[1]);
    let mut ds = state_after_seek_3968::<C>(b);
    let mut buf = [0u32; COLLECT_BLOCK_BUFFER_LEN];
    // first block: 3968..4031, scorer left on 4032
    assert_eq!(ds.fill_buffer(&mut buf), COLLECT_BLOCK_BUFFER_LEN);
    let k: usize = kani::any();
    kani::assume(k < COLLECT_BLOCK_BUFFER_LEN);
    assert_eq!(buf[k], 3968 + k as u32);
    assert_eq!(ds.doc(), 4032);
    // second block: 4032..4095, then the window of B is loaded: scorer left on b0
    assert_eq!(ds.fill_buffer(&mut buf), COLLECT_BLOCK_BUFFER_LEN);
    assert_eq!(buf[k], 4032 + k as u32);
    assert_eq!(ds.doc(), b0);
    // link to piece B
    assert_eq!(ds.window_start_doc, b0);
    assert_eq!(ds.bucket_idx, 0);
    (ds, b0, b1)
}

/// piece A, ids: DoNothingCombiner
#[kani::proof]
#[kani::unwind(5)]
fn c13_buffered_union_two_fills_link_ids() {
    let (ds, b0, b1) = two_fills_link::<DoNothingCombiner>();
    let i: usize = kani::any();
    kani::assume(i < HORIZON_NUM_TINYBITSETS);
    assert!(ds.bitsets[i] == tinyset_of(s1_bits(i, b0, b1)));
    if b1 - b0 < HORIZON {
        assert!(ds.docsets.is_empty());
    } else {
        assert!(ds.docsets.len() == 1 && ds.docsets[0].doc() == b1);
    }
    kani::cover!(b1 - b0 >= 3969 && b1 - b0 < 4096, "b1 falls into a bucket drained by fill_buffer");
    std::mem::forget(ds);
}

fn tinyset_of(bits: u64) -> TinySet {
    let mut t = TinySet::empty();
    let mut j = 0u32;
    while j < 64 {
        if (bits >> j) & 1 == 1 {
            t.insert_mut(j);
        }
        j += 1;
    }
    t
}

/// piece B: from S1(b1), advance reaches b1, then the end. `NEAR`: b1 lies in the window of b0
/// (buffered), otherwise it needs one more refill.
fn advance_from_s1<const NEAR: bool, const CALLS: usize>() {
    let b = any_b();
    let b1 = b.docs[1];
    kani::assume((b1 - 5000 < HORIZON) == NEAR);
    let mut ds = state_s1::<DoNothingCombiner>(b);
    assert_eq!(ds.advance(), b1);
    assert_eq!(ds.doc(), b1);
    if CALLS > 1 {
        assert_eq!(ds.advance(), TERMINATED);
        assert_eq!(ds.doc(), TERMINATED);
    }
    kani::cover!(b1 > 5001, "b1 not adjacent");
    std::mem::forget(ds);
}

#[kani::proof]
#[kani::unwind(5)]
fn c13_buffered_union_advance_from_s1_near() {
    advance_from_s1::<true, 2>();
}

#[kani::proof]
#[kani::unwind(5)]
fn c13_buffered_union_advance_from_s1_far() {
    advance_from_s1::<false, 2>();
}

#[kani::proof]
#[kani::unwind(5)]
fn c13_buffered_union_advance_from_s1_near_one_call() {
    advance_from_s1::<true, 1>();
}

#[kani::proof]
#[kani::unwind(5)]
fn c13_buffered_union_advance_from_s1_far_one_call() {
    advance_from_s1::<false, 1>();
}
