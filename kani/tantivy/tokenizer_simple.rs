// Kani harnesses compiled inside `tantivy::tokenizer::simple_tokenizer`.
// C19: token offsets of SimpleTokenizer for EVERY valid UTF-8 text of 2 bytes and every
// classification of characters (char::is_alphanumeric is stubbed by an arbitrary function of
// the code point: sound for offset / boundary obligations, silent on which chars are letters).
#![allow(dead_code)]
use super::*;
use crate::tokenizer::{TokenStream, Tokenizer};

static mut CLASS: u32 = 0;
fn stub_is_alnum(c: char) -> bool {
    unsafe { (CLASS >> ((c as u32) & 31)) & 1 == 1 }
}

fn check_stream<const L: usize, const MAXTOK: usize>(bytes: [u8; L]) {
    if let Ok(text) = std::str::from_utf8(&bytes[..]) {
        let mut tk = SimpleTokenizer::default();
        // pre-reserve: a symbolic-size String allocation does not finish under CBMC
        tk.token.text.reserve(8);
        let mut ts = tk.token_stream(text);
        let mut last_to = 0usize;
        let mut last_pos = 0usize;
        let mut n = 0;
        while n < MAXTOK && ts.advance() {
            let t = ts.token();
            assert!(t.offset_from <= t.offset_to && t.offset_to <= text.len());
            assert!(text.is_char_boundary(t.offset_from) && text.is_char_boundary(t.offset_to));
            assert!(t.offset_from >= last_to);
            assert!(t.offset_from < t.offset_to);
            assert!(t.text.len() == t.offset_to - t.offset_from);
            assert!(n == 0 || t.position > last_pos);
            last_to = t.offset_to;
            last_pos = t.position;
            n += 1;
        }
        kani::cover!(n == 1 && last_to == L, "one token covering the whole text");
        std::mem::forget(tk);
    }
}

#[kani::proof]
#[kani::unwind(5)]
#[kani::stub(char::is_alphanumeric, stub_is_alnum)]
fn c19_simple_tokenizer_utf8_len2() {
    unsafe {
        CLASS = kani::any();
    }
    let bytes: [u8; 2] = kani::any();
    check_stream::<2, 3>(bytes);
}

#[kani::proof]
#[kani::unwind(5)]
#[kani::stub(char::is_alphanumeric, stub_is_alnum)]
fn c19_simple_tokenizer_ascii_len3() {
    unsafe {
        CLASS = kani::any();
    }
    let bytes: [u8; 3] = kani::any();
    kani::assume(bytes[0] < 128 && bytes[1] < 128 && bytes[2] < 128);
    check_stream::<3, 3>(bytes);
}
