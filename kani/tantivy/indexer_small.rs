// Kani harnesses compiled inside `tantivy::indexer` (hook at the bottom of src/indexer/mod.rs).
// C02: delete-visibility rule, opstamp allocator. C17: DocIdMapping.
#![allow(dead_code)]
use super::doc_id_mapping::DocIdMapping;
use super::doc_opstamp_mapping::DocToOpstampMapping;
use super::stamper::Stamper;

/// K02-1: a delete hits a document iff the document was added before the delete
/// (strictly smaller opstamp); without a mapping (committed segment) it always hits.
#[kani::proof]
#[kani::unwind(4)]
fn c02_delete_rule() {
    let ops: [u64; 4] = kani::any(); // arbitrary, NOT monotone (sorted segments permute them)
    let doc: u32 = kani::any();
    kani::assume(doc < 4);
    let del: u64 = kani::any();
    let m = DocToOpstampMapping::WithMap(&ops);
    assert!(m.is_deleted(doc, del) == (ops[doc as usize] < del));
    assert!(DocToOpstampMapping::None.is_deleted(doc, del));
    kani::cover!(ops[doc as usize] == del, "delete issued with the document's own opstamp");
}

/// K02-2: stamps are handed out in strictly increasing, contiguous, disjoint ranges
#[kani::proof]
fn c02_stamper() {
    let start: u64 = kani::any();
    let n: u64 = kani::any();
    kani::assume(start < u64::MAX / 4 && n < 1 << 40);
    let s = Stamper::new(start);
    let a = s.stamp();
    let r = s.stamps(n);
    let c = s.clone();
    let b = c.stamp(); // clones share the counter
    let d = s.stamp();
    assert!(a == start && r.start == a + 1 && r.end == r.start + n && b == r.end && d == b + 1);
    let x: u64 = kani::any();
    assert!(s.revert(x) == x);
    assert!(c.stamp() == x);
    kani::cover!(n == 0);
    std::mem::forget(s);
    std::mem::forget(c);
}

/// the batch arithmetic of IndexWriter::get_batch_opstamps, on the real Stamper:
/// `count` member stamps, contiguous, and a batch stamp greater than every member
#[kani::proof]
fn c02_batch_opstamps_shape() {
    let start: u64 = kani::any();
    let count: u64 = kani::any();
    kani::assume(start < u64::MAX / 4 && count >= 1 && count < 1 << 40);
    let s = Stamper::new(start);
    let r = s.stamps(count + 1);
    let last = r.end - 1;
    let members = r.start..last;
    assert!(members.end - members.start == count);
    assert!(members.start == start && last == start + count);
    assert!(s.stamp() == last + 1);
    std::mem::forget(s);
}

/// K17-1: DocIdMapping built from new->old is the inverse permutation; remap moves values
#[kani::proof]
#[kani::unwind(6)]
fn c17_docid_mapping_perm4() {
    const N: usize = 4;
    let p: [u32; N] = kani::any();
    let mut seen = 0u32;
    let mut i = 0;
    while i < N {
        kani::assume(p[i] < N as u32);
        seen |= 1 << p[i];
        i += 1;
    }
    kani::assume(seen == (1 << N) - 1);
    let mut v: Vec<u32> = Vec::with_capacity(N);
    v.extend_from_slice(&p);
    let m = DocIdMapping::from_new_id_to_old_id(v);
    let xs: [u64; N] = kani::any();
    let r = m.remap(&xs);
    let j: usize = kani::any();
    kani::assume(j < N);
    assert!(m.get_new_doc_id(p[j]) == j as u32);
    assert!(m.old_to_new_ids()[p[j] as usize] == j as u32);
    assert!(r[j] == xs[p[j] as usize]);
    assert!(m.len() == N);
    {
        let mut it = m.iter_old_doc_ids();
        assert!(it.next() == Some(p[0]));
    }
    kani::cover!(p[0] == 3 && p[3] == 0);
    std::mem::forget(m);
    std::mem::forget(r);
}

/// new_permutation accepts exactly the permutations of 0..n (n = 3)
#[kani::proof]
#[kani::unwind(6)]
#[kani::stub(alloc::fmt::format, stub_format)]
fn c17_docid_mapping_validation() {
    const N: usize = 3;
    let p: [u32; N] = kani::any();
    let mut v: Vec<u32> = Vec::with_capacity(N);
    v.extend_from_slice(&p);
    // keep the `vec![0; max+1]` allocation small: ids < 8
    kani::assume(p[0] < 8 && p[1] < 8 && p[2] < 8);
    let is_perm = p[0] < 3 && p[1] < 3 && p[2] < 3 && p[0] != p[1] && p[0] != p[2] && p[1] != p[2];
    match DocIdMapping::new_permutation(v) {
        Ok(m) => {
            assert!(is_perm);
            std::mem::forget(m);
        }
        Err(e) => {
            assert!(!is_perm);
            std::mem::forget(e);
        }
    }
    kani::cover!(is_perm);
    kani::cover!(!is_perm);
}

fn stub_format(_args: std::fmt::Arguments<'_>) -> String {
    String::new()
}
