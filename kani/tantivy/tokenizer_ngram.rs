// Kani harnesses compiled inside `tantivy::tokenizer::ngram_tokenizer`.
// C19: NgramTokenizer over every valid UTF-8 text of L bytes: each token lies inside the text,
// on character boundaries, equals the slice it points to, spans between MIN and MAX characters,
// tokens come in (from, to) lexicographic order without repetition, and their number is the
// number of (start, length) pairs that fit - so the emitted set is exactly the n-grams.
#![allow(dead_code)]
use super::*;
use crate::tokenizer::{TokenStream, Tokenizer};

fn char_count(text: &str, from: usize, to: usize) -> usize {
    let b = text.as_bytes();
    let mut n = 0;
    let mut i = 0;
    while i < b.len() {
        if i >= from && i < to && (b[i] & 0xC0) != 0x80 {
            n += 1;
        }
        i += 1;
    }
    n
}

fn check_ngram<const L: usize, const MIN: usize, const MAX: usize>(bytes: [u8; L], prefix_only: bool) {
    if let Ok(text) = std::str::from_utf8(&bytes[..]) {
        let mut tk = NgramTokenizer::new(MIN, MAX, prefix_only).unwrap();
        tk.token.text.reserve(8);
        let nchars = char_count(text, 0, L);
        // expected number of n-grams
        let mut expected = 0usize;
        let mut s = 0;
        while s < L {
            if s < nchars && (!prefix_only || s == 0) {
                let mut g = MIN;
                while g <= MAX {
                    if s + g <= nchars {
                        expected += 1;
                    }
                    g += 1;
                }
            }
            s += 1;
        }
        let mut ts = tk.token_stream(text);
        let mut last = (0usize, 0usize);
        let mut n = 0usize;
        // at most L * (MAX - MIN + 1) tokens; one more call shows the end
        while n <= L * (MAX - MIN + 1) && ts.advance() {
            let t = ts.token();
            assert!(t.offset_from < t.offset_to && t.offset_to <= L);
            assert!(text.is_char_boundary(t.offset_from) && text.is_char_boundary(t.offset_to));
            let c = char_count(text, t.offset_from, t.offset_to);
            assert!(c >= MIN && c <= MAX);
            assert!(n == 0 || (t.offset_from, t.offset_to) > last);
            assert!(!prefix_only || t.offset_from == 0);
            assert!(t.text.len() == t.offset_to - t.offset_from);
            let b = text.as_bytes();
            let mut i = 0;
            while i < L {
                if i >= t.offset_from && i < t.offset_to {
                    assert!(t.text.as_bytes()[i - t.offset_from] == b[i]);
                }
                i += 1;
            }
            last = (t.offset_from, t.offset_to);
            n += 1;
        }
        assert_eq!(n, expected);
        kani::cover!(n >= 1 && nchars < L, "n-grams over a text with a multi-byte character");
        std::mem::forget(tk);
    }
}

#[kani::proof]
#[kani::unwind(8)]
fn c19_ngram_len3_min1_max2() {
    check_ngram::<3, 1, 2>(kani::any(), kani::any());
}

#[kani::proof]
#[kani::unwind(8)]
fn c19_ngram_len3_min2_max3() {
    check_ngram::<3, 2, 3>(kani::any(), kani::any());
}

#[kani::proof]
#[kani::unwind(10)]
fn c19_ngram_len4_min1_max3() {
    check_ngram::<4, 1, 3>(kani::any(), kani::any());
}
