// Kani harnesses compiled inside `tantivy::query::boolean_query::boolean_weight`.
// C03: a SHOULD-only disjunction from which a match-all clause was removed still matches every
// document id of the segment (0..max_doc; deleted ids are filtered later by the collectors'
// alive bitset), whatever the number of live documents.
#![allow(dead_code)]
use super::*;
use crate::docset::{DocSet, TERMINATED};
use crate::query::score_combiner::DoNothingCombiner;
use crate::query::EmptyScorer;

#[kani::proof]
#[kani::unwind(4)]
fn c03_should_union_with_removed_all_scorer_matches_all_ids() {
    let max_doc: DocId = kani::any();
    let num_docs: u32 = kani::any();
    // a segment with deletes: fewer live documents than ids
    kani::assume(max_doc >= 1 && max_doc <= 1000 && num_docs <= max_doc);
    let removed: usize = kani::any();
    kani::assume(removed >= 1 && removed <= 3);
    let other: SpecializedScorer = SpecializedScorer::Other(Box::new(EmptyScorer));
    let combined = effective_should_scorer_for_union(
        other,
        removed,
        max_doc,
        num_docs,
        DoNothingCombiner::default,
        false, // scoring disabled: Count / DocSetCollector
    );
    let mut ds = into_box_scorer(combined, DoNothingCombiner::default, num_docs);
    assert_eq!(ds.doc(), 0);
    let t: DocId = kani::any();
    kani::assume(t <= TERMINATED);
    let got = ds.seek(t);
    assert_eq!(got, if t < max_doc { t } else { TERMINATED });
    if got != TERMINATED {
        let nxt = ds.advance();
        assert_eq!(nxt, if got + 1 < max_doc { got + 1 } else { TERMINATED });
    }
    kani::cover!(num_docs < max_doc && t >= num_docs && t < max_doc, "an id above the live count");
    std::mem::forget(ds);
}

/// without a removed match-all clause the should scorer is returned untouched
#[kani::proof]
#[kani::unwind(4)]
fn c03_should_union_without_removed_all_scorer_is_identity() {
    let max_doc: DocId = kani::any();
    kani::assume(max_doc >= 1 && max_doc <= 1000);
    let other: SpecializedScorer = SpecializedScorer::Other(Box::new(crate::query::AllScorer::new(max_doc)));
    let scoring: bool = kani::any();
    let combined = effective_should_scorer_for_union(other, 0, max_doc, max_doc, DoNothingCombiner::default, scoring);
    let mut ds = into_box_scorer(combined, DoNothingCombiner::default, max_doc);
    assert_eq!(ds.doc(), 0);
    assert_eq!(ds.seek(TERMINATED), TERMINATED);
    kani::cover!(scoring);
    std::mem::forget(ds);
}
