// Kani harnesses compiled inside `tantivy::query` (hook at the bottom of src/query/mod.rs).
// Properties: C13 (DocSet call programs), C03 (combinators are set algebra), C12 (combiners).
//
// Leaves are `Arr`: a DocSet over a fixed array of <= 3 symbolic strictly increasing ids that
// relies on the *default* seek / seek_danger / fill_buffer / fill_bitset_block / count of the
// trait (so those default methods are part of what is executed).
#![allow(dead_code)]

use super::boost_query::BoostScorer;
use super::disjunction::Disjunction;
use super::score_combiner::{DisjunctionMaxCombiner, DoNothingCombiner, ScoreCombiner, SumCombiner};
use super::union::{BitSetPostingUnion, SimpleUnion};
use super::*;
use crate::docset::{DocSet, SeekDangerResult, BLOCK_NUM_TINYBITSETS, COLLECT_BLOCK_BUFFER_LEN, TERMINATED};
use crate::{DocId, Score};
use common::{BitSet, TinySet};

pub(crate) const N: usize = 3;

#[derive(Clone, Copy)]
pub(crate) struct Arr {
    pub docs: [DocId; N],
    pub len: usize,
    pub cur: usize,
}

impl Arr {
    pub fn empty() -> Arr {
        Arr { docs: [0; N], len: 0, cur: 0 }
    }
    /// arbitrary strictly increasing list of <= maxlen ids, all < max_doc
    pub fn any(max_doc: DocId, maxlen: usize) -> Arr {
        let docs: [DocId; N] = kani::any();
        let len: usize = kani::any();
        kani::assume(len <= maxlen && len <= N);
        if len > 1 {
            kani::assume(docs[0] < docs[1]);
        }
        if len > 2 {
            kani::assume(docs[1] < docs[2]);
        }
        if len > 0 {
            kani::assume(docs[len - 1] < max_doc);
        }
        Arr { docs, len, cur: 0 }
    }
    pub fn contains(&self, d: DocId) -> bool {
        (self.len > 0 && self.docs[0] == d)
            || (self.len > 1 && self.docs[1] == d)
            || (self.len > 2 && self.docs[2] == d)
    }
}

impl DocSet for Arr {
    fn advance(&mut self) -> DocId {
        if self.cur < self.len {
            self.cur += 1;
        }
        self.doc()
    }
    fn doc(&self) -> DocId {
        if self.cur >= self.len {
            TERMINATED
        } else {
            self.docs[self.cur]
        }
    }
    fn size_hint(&self) -> u32 {
        self.len as u32
    }
}

/// Oracle: first candidate id >= target satisfying `pred`, TERMINATED if none.
/// Candidates are the ids of the (at most three) leaves: every set-algebra combination of the
/// leaves is a subset of their union.
fn next_where(ls: &[Arr; 3], target: DocId, pred: impl Fn(DocId) -> bool) -> DocId {
    let mut best = TERMINATED;
    let mut i = 0;
    while i < N {
        let mut k = 0;
        while k < 3 {
            let s = &ls[k];
            if i < s.len {
                let d = s.docs[i];
                if d >= target && d < best && pred(d) {
                    best = d;
                }
            }
            k += 1;
        }
        i += 1;
    }
    best
}

/// number of candidate ids >= target satisfying pred (distinct); harnesses using it keep the
/// oracle set at <= 2*N ids
fn count_where(ls: &[Arr; 3], target: DocId, pred: impl Fn(DocId) -> bool + Copy) -> u32 {
    let mut n = 0u32;
    let mut t = target;
    let mut i = 0;
    while i < 2 * N {
        let d = next_where(ls, t, pred);
        if d == TERMINATED {
            break;
        }
        n += 1;
        t = d + 1;
        i += 1;
    }
    n
}

/// One symbolic call of the DocSet API, checked against the oracle. Returns false when the
/// program must stop (terminal call).
/// op: 0 advance, 1 seek(t) for any doc <= t <= TERMINATED (this includes seek(doc) and
///     seek(TERMINATED)), 4 count_including_deleted (terminal), 5 fill_buffer,
///     6 fill_bitset_block(min_doc >= doc)
fn step<const ALLOWED: u8, D: DocSet>(
    ds: &mut D,
    ls: &[Arr; 3],
    pred: impl Fn(DocId) -> bool + Copy,
    op: u8,
) -> bool {
    let cur = ds.doc();
    // `ALLOWED` is a compile-time constant: calls outside the set are not even encoded.
    match op {
        0 if ALLOWED & 1 != 0 => {
            let got = ds.advance();
            let exp = if cur == TERMINATED { TERMINATED } else { next_where(ls, cur + 1, pred) };
            assert_eq!(got, exp);
            assert_eq!(ds.doc(), got);
            true
        }
        1 if ALLOWED & 2 != 0 => {
            let t: DocId = kani::any();
            kani::assume(t >= cur && t <= TERMINATED);
            let got = ds.seek(t);
            let exp = if t == TERMINATED { TERMINATED } else { next_where(ls, t, pred) };
            assert_eq!(got, exp);
            assert_eq!(ds.doc(), got);
            true
        }
        4 if ALLOWED & 16 != 0 => {
            let got = ds.count_including_deleted();
            let exp = if cur == TERMINATED { 0 } else { count_where(ls, cur, pred) };
            assert_eq!(got, exp);
            false
        }
        5 if ALLOWED & 32 != 0 => {
            let mut buf = [0u32; COLLECT_BLOCK_BUFFER_LEN];
            let n = ds.fill_buffer(&mut buf);
            let exp = if cur == TERMINATED { 0 } else { count_where(ls, cur, pred) };
            assert_eq!(n as u32, exp);
            // contents: the oracle sequence starting at the current document
            let mut t = cur;
            let mut i = 0;
            while i < 2 * N && i < n {
                let d = next_where(ls, t, pred);
                assert_eq!(buf[i], d);
                t = d + 1;
                i += 1;
            }
            // fewer than 64 documents exist, so the set is exhausted afterwards
            assert_eq!(ds.doc(), TERMINATED);
            true
        }
        6 if ALLOWED & 64 != 0 => {
            let min_doc: DocId = kani::any();
            // `fill_bitset_block` starts with `seek(min_doc)`: same precondition as seek (doc <= target).
            // An exhausted doc set only accepts TERMINATED, which is not a window start: excluded.
            kani::assume(min_doc >= cur);
            kani::assume(min_doc < 1_000_000);
            let mut mask = [TinySet::EMPTY; BLOCK_NUM_TINYBITSETS];
            let next = ds.fill_bitset_block(min_doc, &mut mask);
            let horizon = min_doc + crate::docset::BLOCK_WINDOW;
            let exp_next = next_where(ls, horizon, pred);
            assert_eq!(next, exp_next);
            // an arbitrary id of the window is in the mask iff it is in the oracle set
            let probe: DocId = kani::any();
            kani::assume(probe >= min_doc && probe < horizon);
            let delta = probe - min_doc;
            let in_mask = mask[(delta / 64) as usize].contains(delta % 64);
            let in_set = next_where(ls, probe, pred) == probe;
            assert_eq!(in_mask, in_set);
            true
        }
        _ => {
            kani::assume(false);
            false
        }
    }
}

/// `L` symbolic calls, ops restricted to the bit set `allowed`.
fn drive<const ALLOWED: u8, D: DocSet>(
    ds: &mut D,
    ls: &[Arr; 3],
    pred: impl Fn(DocId) -> bool + Copy,
    steps: usize,
) {
    let first = ds.doc();
    assert_eq!(first, next_where(ls, 0, pred));
    let mut i = 0;
    while i < steps {
        let op: u8 = kani::any();
        kani::assume(op < 7);
        if !step::<ALLOWED, D>(ds, ls, pred, op) {
            break;
        }
        i += 1;
    }
    kani::cover!(ds.doc() != TERMINATED, "program ends on a document");
}

const OPS_SEEKADV: u8 = 0b0000011; // advance, seek(t)
const OP_COUNT: u8 = 0b0010000;
const OP_FILLBUF: u8 = 0b0100000;
const OP_BITSET: u8 = 0b1000000;

fn cs(a: Arr, s: Score) -> ConstScorer<Arr> {
    ConstScorer::new(a, s)
}

// ---------------------------------------------------------------------------------------------
// Intersection
// ---------------------------------------------------------------------------------------------

fn inter2<const OPS: u8>(steps: usize, max_doc: DocId) {
    let (a, b) = (Arr::any(max_doc, 3), Arr::any(max_doc, 3));
    let ls = [a, b, Arr::empty()];
    let mut ds = Intersection::new(vec![cs(a, 1.0), cs(b, 2.0)], max_doc);
    drive::<OPS, _>(&mut ds, &ls, |d| a.contains(d) && b.contains(d), steps);
    if ds.doc() != TERMINATED {
        assert!(ds.score() == 3.0);
    }
    std::mem::forget(ds);
}

#[kani::proof]
#[kani::unwind(5)]
fn c13_intersection2_prog2() {
    inter2::<{ OPS_SEEKADV }>(2, 8192);
}

#[kani::proof]
#[kani::unwind(5)]
fn c13_intersection2_prog3() {
    inter2::<{ OPS_SEEKADV }>(3, 300);
}

#[kani::proof]
#[kani::unwind(8)]
fn c13_intersection2_fillbuf() {
    inter2::<{ OP_FILLBUF }>(1, 2000);
}

#[kani::proof]
#[kani::unwind(8)]
fn c13_intersection2_bitset_block() {
    inter2::<{ OP_BITSET }>(1, 2000);
}

#[kani::proof]
#[kani::unwind(5)]
fn c13_intersection3_prog2() {
    let (a, b, c) = (Arr::any(300, 3), Arr::any(300, 3), Arr::any(300, 2));
    let ls = [a, b, c];
    let mut ds = Intersection::new(vec![cs(a, 1.0), cs(b, 2.0), cs(c, 4.0)], 300);
    drive::<{ OPS_SEEKADV }, _>(&mut ds, &ls, |d| a.contains(d) && b.contains(d) && c.contains(d), 2);
    if ds.doc() != TERMINATED {
        assert!(ds.score() == 7.0);
    }
    std::mem::forget(ds);
}

/// count_including_deleted: sparse and dense (block bitset) paths agree with |A ∩ B|.
#[kani::proof]
#[kani::unwind(8)]
fn c03_intersection_count() {
    let (a, b) = (Arr::any(4000, 3), Arr::any(4000, 3));
    let ls = [a, b, Arr::empty()];
    let seg: u32 = kani::any();
    kani::assume(seg >= 1 && seg <= 4000);
    let mut ds = Intersection::new(vec![cs(a, 1.0), cs(b, 1.0)], seg);
    let pred = |d| a.contains(d) && b.contains(d);
    let adv: bool = kani::any();
    if adv {
        ds.advance();
    }
    let cur = ds.doc();
    let got = ds.count_including_deleted();
    let exp = if cur == TERMINATED { 0 } else { count_where(&ls, cur, pred) };
    assert_eq!(got, exp);
    kani::cover!(got == 2, "two common documents");
    std::mem::forget(ds);
}

/// count_including_deleted on a 4-way intersection (two `others`), dense block-bitset path:
/// = |A ∩ B ∩ C ∩ D|. Every clause must filter, also the ones behind the second.
#[kani::proof]
#[kani::unwind(5)]
fn c03_intersection4_count_dense() {
    let mk = || {
        let docs: [DocId; N] = kani::any();
        kani::assume(docs[0] < docs[1] && docs[1] < 32);
        Arr { docs, len: 2, cur: 0 }
    };
    let (a, b, c, d) = (mk(), mk(), mk(), mk());
    // 32 documents: every lead is dense enough for the block path (size_hint * 32 >= 32)
    let mut ds = Intersection::new(vec![cs(a, 1.0), cs(b, 1.0), cs(c, 1.0), cs(d, 1.0)], 32);
    let inall = |x: DocId| a.contains(x) && b.contains(x) && c.contains(x) && d.contains(x);
    let exp = (inall(a.docs[0]) as u32) + (inall(a.docs[1]) as u32);
    let got = ds.count_including_deleted();
    assert_eq!(got, exp);
    kani::cover!(got == 1 && a.docs[0] == b.docs[0] && b.docs[0] == c.docs[0] && c.docs[0] != d.docs[0] && c.docs[0] != d.docs[1], "the last clause filters");
    std::mem::forget(ds);
}

// ---------------------------------------------------------------------------------------------
// Exclude
// ---------------------------------------------------------------------------------------------

fn exclude1<const OPS: u8>(steps: usize) {
    let (a, b) = (Arr::any(300, 3), Arr::any(300, 3));
    let ls = [a, b, Arr::empty()];
    let mut ds = Exclude::new(cs(a, 2.0), cs(b, 1.0));
    drive::<OPS, _>(&mut ds, &ls, |d| a.contains(d) && !b.contains(d), steps);
    if ds.doc() != TERMINATED {
        assert!(ds.score() == 2.0);
    }
    std::mem::forget(ds);
}

#[kani::proof]
#[kani::unwind(5)]
fn c13_exclude1_prog2() {
    exclude1::<{ OPS_SEEKADV }>(2);
}

#[kani::proof]
#[kani::unwind(5)]
fn c13_exclude1_prog3() {
    exclude1::<{ OPS_SEEKADV }>(3);
}

#[kani::proof]
#[kani::unwind(8)]
fn c13_exclude1_fillbuf() {
    exclude1::<{ OP_FILLBUF }>(1);
}

#[kani::proof]
#[kani::unwind(8)]
fn c13_exclude1_count() {
    exclude1::<{ OP_COUNT }>(1);
}

#[kani::proof]
#[kani::unwind(5)]
fn c13_exclude2_prog2() {
    let (a, b, c) = (Arr::any(300, 3), Arr::any(300, 3), Arr::any(300, 3));
    let ls = [a, b, c];
    let mut ds = Exclude::new(cs(a, 2.0), vec![cs(b, 1.0), cs(c, 1.0)]);
    drive::<{ OPS_SEEKADV }, _>(&mut ds, &ls, |d| a.contains(d) && !b.contains(d) && !c.contains(d), 2);
    std::mem::forget(ds);
}

// ---------------------------------------------------------------------------------------------
// SimpleUnion
// ---------------------------------------------------------------------------------------------

fn simple_union<const OPS: u8>(steps: usize) {
    let (a, b) = (Arr::any(300, 3), Arr::any(300, 3));
    let ls = [a, b, Arr::empty()];
    let mut ds = SimpleUnion::build(vec![a, b]);
    drive::<OPS, _>(&mut ds, &ls, |d| a.contains(d) || b.contains(d), steps);
    std::mem::forget(ds);
}

#[kani::proof]
#[kani::unwind(5)]
fn c13_simple_union_prog2() {
    simple_union::<{ OPS_SEEKADV }>(2);
}

#[kani::proof]
#[kani::unwind(5)]
fn c13_simple_union_prog3() {
    simple_union::<{ OPS_SEEKADV }>(3);
}

#[kani::proof]
#[kani::unwind(8)]
fn c13_simple_union_count() {
    simple_union::<{ OP_COUNT }>(1);
}

#[kani::proof]
#[kani::unwind(8)]
fn c13_simple_union_bitset_block() {
    simple_union::<{ OP_BITSET }>(1);
}

// ---------------------------------------------------------------------------------------------
// RequiredOptionalScorer
// ---------------------------------------------------------------------------------------------

fn reqopt(steps: usize) {
    let (a, b) = (Arr::any(300, 3), Arr::any(300, 3));
    let ls = [a, b, Arr::empty()];
    let mut ds: RequiredOptionalScorer<_, _, SumCombiner> =
        RequiredOptionalScorer::new(cs(a, 1.0), cs(b, 2.0));
    let pred = |d| a.contains(d);
    let first = ds.doc();
    assert_eq!(first, next_where(&ls, 0, pred));
    let mut i = 0;
    while i < steps {
        let op: u8 = kani::any();
        kani::assume(op < 3);
        // the score may be read (or not) between calls; reading it moves the optional scorer
        let read_score: bool = kani::any();
        if read_score && ds.doc() != TERMINATED {
            let d = ds.doc();
            let s = ds.score();
            assert!(s == if b.contains(d) { 3.0 } else { 1.0 });
            // cached: reading again gives the same value
            assert!(ds.score() == s);
        }
        if op < 2 {
            step::<{ OPS_SEEKADV }, _>(&mut ds, &ls, pred, op);
        } else {
            // seek_danger(t): how an enclosing Intersection drives its non-leading members
            let cur = ds.doc();
            let t: DocId = kani::any();
            kani::assume(t >= cur && t < TERMINATED);
            match ds.seek_danger(t) {
                SeekDangerResult::Found => {
                    assert!(a.contains(t));
                    assert_eq!(ds.doc(), t);
                }
                SeekDangerResult::SeekLowerBound(lb) => {
                    assert!(!a.contains(t));
                    let exp = next_where(&ls, t, pred);
                    assert!(lb == TERMINATED || (lb > t && lb <= exp));
                    // the leaves' default seek_danger leaves them valid: doc() is the seek result
                    assert_eq!(ds.doc(), exp);
                }
            }
        }
        i += 1;
    }
    if ds.doc() != TERMINATED {
        let d = ds.doc();
        assert!(ds.score() == if b.contains(d) { 3.0 } else { 1.0 });
        kani::cover!(b.contains(d), "optional clause matches the final document");
    }
    std::mem::forget(ds);
}

#[kani::proof]
#[kani::unwind(5)]
fn c13_reqopt_prog2() {
    reqopt(2);
}

#[kani::proof]
#[kani::unwind(5)]
fn c13_reqopt_prog3() {
    reqopt(3);
}

// ---------------------------------------------------------------------------------------------
// Disjunction (minimum-should-match)
// ---------------------------------------------------------------------------------------------

#[kani::proof]
#[kani::unwind(5)]
fn c13_disjunction_msm2_prog2() {
    let (a, b, c) = (Arr::any(300, 2), Arr::any(300, 2), Arr::any(300, 2));
    let ls = [a, b, c];
    let mut ds = Disjunction::new(vec![cs(a, 1.0), cs(b, 2.0), cs(c, 4.0)], SumCombiner::default(), 2);
    let pred = |d| (a.contains(d) as u8 + b.contains(d) as u8 + c.contains(d) as u8) >= 2;
    drive::<{ OPS_SEEKADV }, _>(&mut ds, &ls, pred, 2);
    if ds.doc() != TERMINATED {
        let d = ds.doc();
        let exp = (if a.contains(d) { 1.0 } else { 0.0 })
            + (if b.contains(d) { 2.0 } else { 0.0 })
            + (if c.contains(d) { 4.0 } else { 0.0 });
        assert!(ds.score() == exp);
    }
    std::mem::forget(ds);
}

// ---------------------------------------------------------------------------------------------
// BufferedUnionScorer
// ---------------------------------------------------------------------------------------------

#[kani::proof]
#[kani::unwind(5)]
fn c13_buffered_union_prog1() {
    let (a, b) = (Arr::any(300, 2), Arr::any(300, 2));
    let ls = [a, b, Arr::empty()];
    let mut ds: BufferedUnionScorer<ConstScorer<Arr>, DoNothingCombiner> =
        BufferedUnionScorer::build(vec![cs(a, 1.0), cs(b, 1.0)], DoNothingCombiner::default, 300);
    drive::<{ OPS_SEEKADV }, _>(&mut ds, &ls, |d| a.contains(d) || b.contains(d), 1);
    std::mem::forget(ds);
}

// ---------------------------------------------------------------------------------------------
// leaf / wrapper doc sets
// ---------------------------------------------------------------------------------------------

#[kani::proof]
#[kani::unwind(66)]
fn c13_all_scorer_prog2() {
    let max_doc: DocId = kani::any();
    kani::assume(max_doc >= 1 && max_doc <= 200);
    let mut ds = AllScorer::new(max_doc);
    assert_eq!(ds.doc(), 0);
    let mut i = 0;
    while i < 2 {
        let cur = ds.doc();
        let op: u8 = kani::any();
        kani::assume(op < 3);
        if op == 0 {
            let got = ds.advance();
            let exp = if cur == TERMINATED || cur + 1 >= max_doc { TERMINATED } else { cur + 1 };
            assert_eq!(got, exp);
        } else if op == 1 {
            let t: DocId = kani::any();
            kani::assume(t >= cur && t <= TERMINATED);
            let got = ds.seek(t);
            let exp = if t >= max_doc { TERMINATED } else { t };
            assert_eq!(got, exp);
        } else {
            let mut buf = [0u32; COLLECT_BLOCK_BUFFER_LEN];
            let n = ds.fill_buffer(&mut buf);
            let avail = if cur == TERMINATED { 0 } else { (max_doc - cur) as usize };
            assert_eq!(n, if avail < 64 { avail } else { 64 });
            let k: usize = kani::any();
            kani::assume(k < n);
            assert_eq!(buf[k], cur + k as u32);
            let exp = if avail <= 64 { TERMINATED } else { cur + 64 };
            assert_eq!(ds.doc(), exp);
        }
        assert!(ds.score() == 1.0);
        i += 1;
    }
    kani::cover!(ds.doc() != TERMINATED);
}

#[kani::proof]
#[kani::unwind(4)]
fn c13_empty_scorer() {
    let mut ds = EmptyScorer;
    assert_eq!(ds.doc(), TERMINATED);
    assert_eq!(ds.advance(), TERMINATED);
    assert_eq!(ds.seek(TERMINATED), TERMINATED);
    assert_eq!(ds.count_including_deleted(), 0);
    assert_eq!(ds.doc(), TERMINATED);
    kani::cover!(true);
}

#[kani::proof]
#[kani::unwind(8)]
fn c13_const_boost_wrappers_prog3() {
    let a = Arr::any(300, 3);
    let ls = [a, Arr::empty(), Arr::empty()];
    let boost: u8 = kani::any();
    let mut ds = BoostScorer::new(cs(a, 2.0), boost as f32);
    drive::<{ OPS_SEEKADV | OP_FILLBUF | OP_COUNT }, _>(&mut ds, &ls, |d| a.contains(d), 3);
    if ds.doc() != TERMINATED {
        assert!(ds.score() == 2.0 * (boost as f32));
    }
}

fn bitset_docset(steps: usize) {
    let a = Arr::any(130, 3);
    let ls = [a, Arr::empty(), Arr::empty()];
    // max_value concrete: a symbolic allocation size does not finish under CBMC
    let max_value: u32 = 130;
    if a.len > 0 {
        kani::assume(a.docs[a.len - 1] < max_value);
    }
    let mut bs = BitSet::with_max_value(max_value);
    let mut i = 0;
    while i < N {
        if i < a.len {
            bs.insert(a.docs[i]);
        }
        i += 1;
    }
    let mut ds = BitSetDocSet::from(bs);
    drive::<{ OPS_SEEKADV }, _>(&mut ds, &ls, |d| a.contains(d), steps);
    std::mem::forget(ds);
}

#[kani::proof]
#[kani::unwind(6)]
fn c13_bitset_docset_prog2() {
    bitset_docset(2);
}

#[kani::proof]
#[kani::unwind(6)]
fn c13_bitset_docset_prog3() {
    bitset_docset(3);
}

#[kani::proof]
#[kani::unwind(6)]
fn c13_bitset_posting_union_prog2() {
    let (a, b) = (Arr::any(130, 2), Arr::any(130, 2));
    let ls = [a, b, Arr::empty()];
    let mut bs = BitSet::with_max_value(130);
    let mut i = 0;
    while i < N {
        if i < a.len {
            bs.insert(a.docs[i]);
        }
        if i < b.len {
            bs.insert(b.docs[i]);
        }
        i += 1;
    }
    let mut ds = BitSetPostingUnion::build(vec![a, b], BitSetDocSet::from(bs));
    drive::<{ OPS_SEEKADV }, _>(&mut ds, &ls, |d| a.contains(d) || b.contains(d), 2);
    std::mem::forget(ds);
}

// ---------------------------------------------------------------------------------------------
// C12: combiners
// ---------------------------------------------------------------------------------------------

#[kani::proof]
#[kani::unwind(4)]
fn c12_combiners() {
    // three clause scores, small integers (exact in f32)
    let s: [u8; 3] = kani::any();
    let present: [bool; 3] = kani::any();
    let mut sum = SumCombiner::default();
    let tie_q: u8 = kani::any(); // tie breaker in quarters: 0, 0.25, .. 1.0
    kani::assume(tie_q <= 4);
    let tie = tie_q as f32 / 4.0;
    let mut dm = DisjunctionMaxCombiner::with_tie_breaker(tie);
    let mut none = DoNothingCombiner::default();
    let mut exp_sum = 0.0f32;
    let mut exp_max = 0.0f32;
    let mut i = 0;
    while i < 3 {
        if present[i] {
            let leaf = Arr { docs: [1, 0, 0], len: 1, cur: 0 };
            let mut sc = cs(leaf, s[i] as f32);
            sum.update(&mut sc);
            dm.update(&mut sc);
            none.update(&mut sc);
            exp_sum += s[i] as f32;
            if s[i] as f32 > exp_max {
                exp_max = s[i] as f32;
            }
        }
        i += 1;
    }
    assert!(sum.score() == exp_sum);
    assert!(dm.score() == exp_max + (exp_sum - exp_max) * tie);
    assert!(none.score() == 1.0);
    kani::cover!(exp_sum > exp_max && exp_max > 0.0, "two clauses present");
    sum.clear();
    dm.clear();
    assert!(sum.score() == 0.0);
    assert!(dm.score() == 0.0);
}
