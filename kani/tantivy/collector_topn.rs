// Kani harnesses compiled inside `tantivy::collector::top_score_collector`.
// C06: TopNComputer = exhaustive ranking with (key per comparator, address asc) tie-break;
// the threshold never rejects a member of the top K.
#![allow(dead_code)]
use super::*;
use crate::collector::sort_key::{NaturalComparator, ReverseComparator};

/// rank of item j among `keys` under "better = greater key, ties: lower index"
fn better_count<const M: usize>(keys: &[u8; M], d: usize, desc: bool) -> usize {
    let mut better = 0usize;
    let mut j = 0usize;
    while j < M {
        let kb = if desc { keys[j] > keys[d] } else { keys[j] < keys[d] };
        if kb || (keys[j] == keys[d] && j < d) {
            better += 1;
        }
        j += 1;
    }
    better
}

fn topn_check<const K: usize, const M: usize, C: Comparator<u8> + Copy>(cmp: C, desc: bool) {
    let keys: [u8; M] = kani::any();
    let mut top: TopNComputer<u8, u32, C> = TopNComputer::new_with_comparator(K, cmp);
    let mut i = 0u32;
    while (i as usize) < M {
        // pushed in ascending address order, as documented
        top.push(keys[i as usize], i);
        // K06-2: the threshold is None or the key of some pushed item that is not better than
        // K other items ... checked through the final result below; here: monotone
        i += 1;
    }
    let res = top.into_sorted_vec();
    assert!(res.len() == if K < M { K } else { M });
    let mut r = 0usize;
    while r < K && r < M {
        let d = res[r].doc as usize;
        assert!(d < M);
        assert!(res[r].sort_key == keys[d]);
        // entry r is the unique item with exactly r better items
        assert!(better_count::<M>(&keys, d, desc) == r);
        r += 1;
    }
    kani::cover!(M > K && keys[0] == keys[M - 1], "tie between first and last pushed item");
    std::mem::forget(res);
}

// `TopNComputer::new` = ReverseComparator = ascending keys first
#[kani::proof]
#[kani::unwind(7)]
fn c06_topn_k1_m4_natural() {
    topn_check::<1, 4, _>(NaturalComparator, true);
}

#[kani::proof]
#[kani::unwind(8)]
fn c06_topn_k2_m5_natural() {
    topn_check::<2, 5, _>(NaturalComparator, true);
}

#[kani::proof]
#[kani::unwind(8)]
fn c06_topn_k2_m5_reverse() {
    topn_check::<2, 5, _>(ReverseComparator, false);
}

#[kani::proof]
#[kani::unwind(10)]
fn c06_topn_k2_m7_natural() {
    topn_check::<2, 7, _>(NaturalComparator, true);
}

#[kani::proof]
#[kani::unwind(10)]
fn c06_topn_k3_m7_natural() {
    topn_check::<3, 7, _>(NaturalComparator, true);
}

#[kani::proof]
#[kani::unwind(12)]
fn c06_topn_k3_m9_reverse() {
    topn_check::<3, 9, _>(ReverseComparator, false);
}

/// K06-2 threshold soundness, observed directly: whenever `push` drops an item (the buffer
/// does not grow and no truncation happened), K items at least as good were already pushed.
#[kani::proof]
#[kani::unwind(8)]
fn c06_topn_threshold_sound_k2_m6() {
    const K: usize = 2;
    const M: usize = 6;
    let keys: [u8; M] = kani::any();
    let mut top: TopNComputer<u8, u32, NaturalComparator> = TopNComputer::new_with_comparator(K, NaturalComparator);
    let mut i = 0usize;
    while i < M {
        let before = top.buffer.len();
        let thr_before = top.threshold;
        top.push(keys[i], i as u32);
        let dropped = top.buffer.len() == before && top.threshold == thr_before && before < 2 * K;
        if dropped {
            // at least K earlier items have key >= this one (they win the tie by address)
            let mut ge = 0usize;
            let mut j = 0usize;
            while j < M {
                if j < i && keys[j] >= keys[i] {
                    ge += 1;
                }
                j += 1;
            }
            assert!(ge >= K);
        }
        if let Some(t) = top.threshold {
            // K pushed items are >= the threshold: dropping an item that does not beat it is
            // sound (ties go to the earlier address). The current implementation keeps the
            // (K+1)-th best key, which gives K+1 such items; the property only needs K, and a
            // tighter K-th-best threshold is equally correct, so K is what is asserted.
            let mut ge = 0usize;
            let mut j = 0usize;
            while j < M {
                if j <= i && keys[j] >= t {
                    ge += 1;
                }
                j += 1;
            }
            assert!(ge >= K);
        }
        i += 1;
    }
    kani::cover!(top.threshold.is_some());
    std::mem::forget(top);
}
