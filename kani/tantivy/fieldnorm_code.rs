// Kani harnesses compiled inside `tantivy::fieldnorm::code`.
// C07 / C12: field-norm quantisation = floor onto a strictly increasing 256-entry table.
#![allow(dead_code)]
use super::*;

#[kani::proof]
#[kani::unwind(12)]
fn c07_fieldnorm_floor() {
    let f: u32 = kani::any();
    let id = fieldnorm_to_id(f);
    let back = id_to_fieldnorm(id);
    assert!(back <= f);
    if id < 255 {
        assert!(f < id_to_fieldnorm(id + 1));
    }
    // exact for small lengths
    if f <= 40 {
        assert!(back == f);
    }
    // monotone
    let g: u32 = kani::any();
    kani::assume(g >= f);
    assert!(fieldnorm_to_id(g) >= id);
    kani::cover!(f > 1_000_000);
}

#[kani::proof]
fn c07_fieldnorm_table_strictly_increasing() {
    let i: u8 = kani::any();
    kani::assume(i < 255);
    assert!(FIELD_NORMS_TABLE[i as usize] < FIELD_NORMS_TABLE[i as usize + 1]);
    assert!(FIELD_NORMS_TABLE[0] == 0);
    assert!(fieldnorm_to_id(FIELD_NORMS_TABLE[i as usize]) == i);
    kani::cover!(i == 254);
}
