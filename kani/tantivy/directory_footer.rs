// Kani harnesses compiled inside `tantivy::directory::footer`.
// C20: the footer proxy hashes exactly the bytes the underlying writer accepted; version gate;
// CRC-32 (baseline implementation) detects single-bit / single-byte damage of small bodies.
#![allow(dead_code)]
use super::*;

/// sink that accepts a symbolic non-empty prefix of every write (short writes are legal for
/// io::Write) and remembers what it accepted
struct PartialWriter {
    buf: [u8; 8],
    len: usize,
}

impl Write for PartialWriter {
    fn write(&mut self, data: &[u8]) -> io::Result<usize> {
        let n: usize = kani::any();
        kani::assume(n >= 1 && n <= data.len());
        let mut i = 0;
        while i < n {
            if self.len < 8 {
                self.buf[self.len] = data[i];
            }
            self.len += 1;
            i += 1;
        }
        Ok(n)
    }
    fn flush(&mut self) -> io::Result<()> {
        Ok(())
    }
}
impl TerminatingWrite for &mut PartialWriter {
    fn terminate_ref(&mut self, _: AntiCallToken) -> io::Result<()> {
        Ok(())
    }
}

fn stub_hasher_new() -> crc32fast::Hasher {
    crc32fast::Hasher::internal_new_baseline(0, 0)
}
fn stub_current() -> std::thread::Thread {
    panic!("thread::current stubbed")
}
fn stub_park() {
    panic!("thread::park stubbed")
}

fn crc_of(bytes: &[u8]) -> u32 {
    let mut h = crc32fast::Hasher::new();
    h.update(bytes);
    h.finalize()
}

/// K20-1: after any sequence of (possibly short) writes the proxy's running hash equals the
/// CRC of exactly the bytes the sink holds, and those are the prefix of the data written
fn proxy_hashes<const L: usize>() {
    let mut sink = PartialWriter { buf: [0u8; 8], len: 0 };
    let data: [u8; L] = kani::any();
    let crc_proxy;
    let accepted;
    {
        let mut proxy = FooterProxy::new(&mut sink);
        let mut off = 0usize;
        let mut calls = 0;
        // write_all by hand (no io::Error paths): up to 3 calls for 3 bytes
        while off < L && calls < L {
            match proxy.write(&data[off..]) {
                Ok(n) => off += n,
                Err(e) => {
                    std::mem::forget(e);
                    panic!()
                }
            }
            calls += 1;
        }
        accepted = off;
        crc_proxy = proxy.hasher.take().unwrap().finalize();
        std::mem::forget(proxy);
    }
    assert!(sink.len == accepted);
    let mut i = 0;
    while i < L {
        if i < accepted {
            assert!(sink.buf[i] == data[i]);
        }
        i += 1;
    }
    assert!(crc_proxy == crc_of(&sink.buf[..accepted]));
    kani::cover!(accepted == L, "all bytes written");
}

#[kani::proof]
#[kani::unwind(6)]
#[kani::stub(crc32fast::Hasher::new, stub_hasher_new)]
fn c20_footer_proxy_hashes_accepted_bytes_len2() {
    proxy_hashes::<2>();
}

#[kani::proof]
#[kani::unwind(6)]
#[kani::stub(crc32fast::Hasher::new, stub_hasher_new)]
fn c20_footer_proxy_hashes_accepted_bytes_len3() {
    proxy_hashes::<3>();
}

/// K20-3: CRC-32 sensitivity (baseline table implementation of crc32fast): flipping any single
/// bit, or substituting any single byte, of a 1..4 byte body changes the checksum.
fn crc_sensitive<const L: usize>() {
    let body: [u8; L] = kani::any();
    let pos: usize = kani::any();
    kani::assume(pos < L);
    let newb: u8 = kani::any();
    kani::assume(newb != body[pos]);
    let mut damaged = body;
    damaged[pos] = newb;
    assert!(crc_of(&body) != crc_of(&damaged));
    kani::cover!(newb == body[pos] ^ 0x80, "a single bit flip");
}

#[kani::proof]
#[kani::unwind(6)]
#[kani::stub(crc32fast::Hasher::new, stub_hasher_new)]
fn c20_crc_detects_byte_damage_len2() {
    crc_sensitive::<2>();
}

#[kani::proof]
#[kani::unwind(6)]
#[kani::stub(crc32fast::Hasher::new, stub_hasher_new)]
fn c20_crc_detects_byte_damage_len4() {
    crc_sensitive::<4>();
}

/// split updates hash like one update (what lets the proxy hash incrementally)
#[kani::proof]
#[kani::unwind(6)]
#[kani::stub(crc32fast::Hasher::new, stub_hasher_new)]
fn c20_crc_incremental() {
    let data: [u8; 2] = kani::any();
    let cut: usize = kani::any();
    kani::assume(cut <= 2);
    let mut h = crc32fast::Hasher::new();
    h.update(&data[..cut]);
    h.update(&data[cut..]);
    assert!(h.finalize() == crc_of(&data));
    kani::cover!(cut == 1);
}

/// K20-2: version gate
#[kani::proof]
#[kani::unwind(32)]
#[kani::stub(std::thread::current::current, stub_current)]
#[kani::stub(std::thread::functions::park, stub_park)]
fn c20_version_gate() {
    let v: u32 = kani::any();
    let footer = Footer {
        version: Version { major: kani::any(), minor: kani::any(), patch: kani::any(), index_format_version: v },
        crc: kani::any(),
    };
    let supported = v >= INDEX_FORMAT_OLDEST_SUPPORTED_VERSION && v <= INDEX_FORMAT_VERSION;
    match footer.is_compatible() {
        Ok(()) => assert!(supported),
        Err(e) => {
            assert!(!supported);
            std::mem::forget(e);
        }
    }
    kani::cover!(supported);
    kani::cover!(v == INDEX_FORMAT_VERSION + 1);
}
