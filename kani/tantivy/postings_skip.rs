// Kani harnesses compiled inside `tantivy::postings::skip` (hook at the bottom of skip.rs).
// C07: skip list written by SkipSerializer is read back exactly by SkipReader (new / advance /
// seek), for the three record options.  C06: block-max term-frequency code never under-estimates.
#![allow(dead_code)]
use super::*;

fn write_block(ser: &mut SkipSerializer, opt: IndexRecordOption, last: u32, nb: u8, tb: u8, ts: u32, f: u8, m: u32) {
    // the exact call sequence of PostingsSerializer::write_block
    ser.write_doc(last, nb);
    if opt.has_freq() {
        ser.write_term_freq(tb);
        if opt.has_positions() {
            ser.write_total_term_freq(ts);
        }
        ser.write_blockwand_max(f, m);
    }
}

fn skip_roundtrip(opt: IndexRecordOption) {
    let last1: u32 = kani::any();
    let last2: u32 = kani::any();
    kani::assume(last1 < last2 && last2 < TERMINATED);
    let nb1: u8 = kani::any();
    let nb2: u8 = kani::any();
    let tb1: u8 = kani::any();
    let tb2: u8 = kani::any();
    // bit widths the block encoder can return (doc deltas < 2^31, term freqs <= 32 bits)
    kani::assume(nb1 < 32 && nb2 < 32 && tb1 <= 32 && tb2 <= 32);
    let ts1: u32 = kani::any();
    let ts2: u32 = kani::any();
    let f1: u8 = kani::any();
    let f2: u8 = kani::any();
    let m1: u32 = kani::any();
    let m2: u32 = kani::any();
    let mut ser = SkipSerializer { buffer: Vec::with_capacity(64) };
    write_block(&mut ser, opt, last1, nb1, tb1, ts1, f1, m1);
    write_block(&mut ser, opt, last2, nb2, tb2, ts2, f2, m2);
    let tail: u32 = kani::any();
    kani::assume(tail < 128);
    let doc_freq = 256 + tail;
    let has_freq = opt.has_freq();
    let has_pos = opt.has_positions();
    let data = OwnedBytes::new(ser.buffer);
    let mut rd = SkipReader::new(data, doc_freq, opt);
    assert!(rd.last_doc_in_block() == last1);
    assert!(rd.byte_offset() == 0 && rd.position_offset() == 0);
    assert!(rd.remaining_docs() == doc_freq);
    match rd.block_info() {
        BlockInfo::BitPacked {
            doc_num_bits,
            strict_delta_encoded,
            tf_num_bits,
            tf_sum,
            block_wand_fieldnorm_id,
            block_wand_term_freq,
        } => {
            assert!(doc_num_bits == nb1 && strict_delta_encoded);
            assert!(tf_num_bits == if has_freq { tb1 } else { 0 });
            assert!(tf_sum == if has_pos { ts1 } else { 0 });
            assert!(block_wand_fieldnorm_id == if has_freq { f1 } else { 0 });
            if has_freq {
                assert!(block_wand_term_freq >= m1);
                if m1 < 255 {
                    assert!(block_wand_term_freq == m1);
                }
            }
        }
        _ => panic!(),
    }
    let target: u32 = kani::any();
    kani::assume(target <= TERMINATED);
    let use_advance: bool = kani::any();
    let b1 = compressed_block_size(nb1 + if has_freq { tb1 } else { 0 });
    let b2 = compressed_block_size(nb2 + if has_freq { tb2 } else { 0 });
    if use_advance {
        rd.advance();
        assert!(rd.last_doc_in_block() == last2);
        assert!(rd.last_doc_in_previous_block == last1);
        assert!(rd.byte_offset() == b1);
        rd.advance();
        assert!(rd.last_doc_in_block() == TERMINATED);
        assert!(rd.byte_offset() == b1 + b2);
        assert!(rd.remaining_docs() == tail);
        assert!(rd.block_info() == BlockInfo::VInt { num_docs: tail });
        kani::cover!(tail == 0, "exact multiple of the block size");
    } else {
        let moved = rd.seek(target);
        if target <= last1 {
            assert!(!moved);
            assert!(rd.last_doc_in_block() == last1);
            assert!(rd.byte_offset() == 0);
        } else if target <= last2 {
            assert!(moved);
            assert!(rd.last_doc_in_block() == last2);
            assert!(rd.byte_offset() == b1);
            assert!(rd.position_offset() == if has_pos { ts1 as u64 } else { 0 });
            assert!(rd.remaining_docs() == 128 + tail);
            match rd.block_info() {
                BlockInfo::BitPacked { doc_num_bits, tf_num_bits, tf_sum, block_wand_fieldnorm_id, .. } => {
                    assert!(doc_num_bits == nb2);
                    assert!(tf_num_bits == if has_freq { tb2 } else { 0 });
                    assert!(tf_sum == if has_pos { ts2 } else { 0 });
                    assert!(block_wand_fieldnorm_id == if has_freq { f2 } else { 0 });
                }
                _ => panic!(),
            }
        } else {
            assert!(moved);
            assert!(rd.last_doc_in_block() == TERMINATED);
            assert!(rd.byte_offset() == b1 + b2);
            assert!(rd.position_offset() == if has_pos { ts1 as u64 + ts2 as u64 } else { 0 });
            assert!(rd.remaining_docs() == tail);
            assert!(rd.block_info() == BlockInfo::VInt { num_docs: tail });
        }
        kani::cover!(target > last1 && target <= last2, "seek lands in the second block");
    }
    std::mem::forget(rd);
}

#[kani::proof]
#[kani::unwind(6)]
fn c07_skip_roundtrip_positions() {
    skip_roundtrip(IndexRecordOption::WithFreqsAndPositions);
}

#[kani::proof]
#[kani::unwind(6)]
fn c07_skip_roundtrip_freqs() {
    skip_roundtrip(IndexRecordOption::WithFreqs);
}

#[kani::proof]
#[kani::unwind(6)]
fn c07_skip_roundtrip_basic() {
    skip_roundtrip(IndexRecordOption::Basic);
}

/// a posting list shorter than one block has no skip data at all
/// K07-skip-reset: a SkipReader re-used for another term through `reset` (what
/// `InvertedIndexReader::reset_block_postings_from_terminfo` does) is observationally a freshly
/// opened one, wherever the previous term's reader had got to: in particular the delta-decoding base
/// (`last_doc_in_previous_block`), byte and position offsets start again from zero.
fn skip_reset(opt: IndexRecordOption) {
    let (last1, last2): (u32, u32) = (kani::any(), kani::any());
    kani::assume(last1 < last2 && last2 < TERMINATED);
    let (nb1, nb2, tb1, tb2): (u8, u8, u8, u8) = (kani::any(), kani::any(), kani::any(), kani::any());
    kani::assume(nb1 < 32 && nb2 < 32 && tb1 <= 32 && tb2 <= 32);
    let mut ser = SkipSerializer { buffer: Vec::with_capacity(64) };
    write_block(&mut ser, opt, last1, nb1, tb1, kani::any(), kani::any(), kani::any());
    write_block(&mut ser, opt, last2, nb2, tb2, kani::any(), kani::any(), kani::any());
    let mut rd = SkipReader::new(OwnedBytes::new(ser.buffer), 256 + 5, opt);
    // the previous term's reader is left anywhere: first block, second block, or the VInt tail
    let steps: u8 = kani::any();
    if steps >= 1 {
        rd.advance();
    }
    if steps >= 2 {
        rd.advance();
    }
    // the next term: either a list with one full block, or a short list without skip data
    let long_list: bool = kani::any();
    let l3: u32 = kani::any();
    kani::assume(l3 < TERMINATED);
    let (nb3, tb3): (u8, u8) = (kani::any(), kani::any());
    kani::assume(nb3 < 32 && tb3 <= 32);
    let (ts3, f3, m3): (u32, u8, u32) = (kani::any(), kani::any(), kani::any());
    let tail: u32 = kani::any();
    kani::assume(tail < 128);
    let mut ser_a = SkipSerializer { buffer: Vec::with_capacity(32) };
    let mut ser_b = SkipSerializer { buffer: Vec::with_capacity(32) };
    let doc_freq = if long_list {
        write_block(&mut ser_a, opt, l3, nb3, tb3, ts3, f3, m3);
        write_block(&mut ser_b, opt, l3, nb3, tb3, ts3, f3, m3);
        128 + tail
    } else {
        tail
    };
    rd.reset(OwnedBytes::new(ser_a.buffer), doc_freq);
    let fresh = SkipReader::new(OwnedBytes::new(ser_b.buffer), doc_freq, opt);
    assert!(rd.last_doc_in_block() == fresh.last_doc_in_block());
    assert!(rd.last_doc_in_previous_block == fresh.last_doc_in_previous_block);
    assert!(rd.last_doc_in_previous_block == 0);
    assert!(rd.byte_offset() == fresh.byte_offset() && rd.byte_offset() == 0);
    assert!(rd.position_offset() == fresh.position_offset() && rd.position_offset() == 0);
    assert!(rd.remaining_docs() == fresh.remaining_docs() && rd.remaining_docs() == doc_freq);
    assert!(rd.block_info() == fresh.block_info());
    // and it moves on like a fresh one
    rd.advance();
    let mut fresh = fresh;
    fresh.advance();
    assert!(rd.last_doc_in_block() == fresh.last_doc_in_block());
    assert!(rd.last_doc_in_previous_block == fresh.last_doc_in_previous_block);
    assert!(rd.byte_offset() == fresh.byte_offset());
    assert!(rd.remaining_docs() == fresh.remaining_docs());
    assert!(rd.block_info() == fresh.block_info());
    kani::cover!(steps >= 2 && long_list, "reset after the reader left the first block");
    kani::cover!(steps == 1 && !long_list);
    std::mem::forget(rd);
    std::mem::forget(fresh);
}

#[kani::proof]
#[kani::unwind(6)]
fn c07_skip_reset_positions() {
    skip_reset(IndexRecordOption::WithFreqsAndPositions);
}

#[kani::proof]
#[kani::unwind(6)]
fn c07_skip_reset_basic() {
    skip_reset(IndexRecordOption::Basic);
}

#[kani::proof]
#[kani::unwind(4)]
fn c07_skip_short_list() {
    let doc_freq: u32 = kani::any();
    kani::assume(doc_freq < 128);
    let mut rd = SkipReader::new(OwnedBytes::empty(), doc_freq, IndexRecordOption::WithFreqs);
    assert!(rd.last_doc_in_block() == TERMINATED);
    assert!(rd.block_info() == BlockInfo::VInt { num_docs: doc_freq });
    let t: u32 = kani::any();
    kani::assume(t <= TERMINATED);
    assert!(!rd.seek(t));
    assert!(rd.remaining_docs() == doc_freq);
    kani::cover!(doc_freq == 127);
    std::mem::forget(rd);
}

#[kani::proof]
fn c07_bitwidth_code() {
    let bw: u8 = kani::any();
    let d: bool = kani::any();
    kani::assume(bw < 32);
    let (b2, d2) = decode_bitwidth(encode_bitwidth(bw, d));
    assert!(b2 == bw && d2 == d);
    kani::cover!(bw == 31 && d);
}

/// C06: the stored block-max term frequency is an upper bound of the real one
#[kani::proof]
fn c06_block_wand_tf_upper_bound() {
    let tf: u32 = kani::any();
    let dec = decode_block_wand_max_tf(encode_block_wand_max_tf(tf));
    assert!(dec >= tf);
    if tf < 255 {
        assert!(dec == tf);
    }
    kani::cover!(tf > 255);
}
