// Kani harnesses compiled inside `tantivy::query::phrase_query::phrase_scorer`.
// C03: position-matching kernels of the phrase scorer against the quadratic definition.
#![allow(dead_code)]
use super::*;

fn sorted3(len: usize) -> [u32; 3] {
    let a: [u32; 3] = kani::any();
    if len > 1 {
        kani::assume(a[0] < a[1]);
    }
    if len > 2 {
        kani::assume(a[1] < a[2]);
    }
    a
}

#[kani::proof]
#[kani::unwind(8)]
fn c03_phrase_exists_count_slop() {
    let ll: usize = kani::any();
    let rl: usize = kani::any();
    kani::assume(ll <= 3 && rl <= 3);
    let l = sorted3(ll);
    let r = sorted3(rl);
    let slop: u32 = kani::any();
    // reference: quadratic scan
    let mut exists = false;
    let mut exists_slop = false;
    let mut count = 0usize;
    let mut i = 0;
    while i < 3 {
        let mut j = 0;
        while j < 3 {
            if i < ll && j < rl {
                if l[i] == r[j] {
                    exists = true;
                    count += 1;
                }
                if l[i].abs_diff(r[j]) <= slop {
                    exists_slop = true;
                }
            }
            j += 1;
        }
        i += 1;
    }
    assert_eq!(intersection_exists(&l[..ll], &r[..rl]), exists);
    assert_eq!(intersection_count(&l[..ll], &r[..rl]), count);
    assert_eq!(intersection_exists_with_slop(&l[..ll], &r[..rl], slop), exists_slop);
    kani::cover!(count == 2 && !exists_slop == false, "two common positions");
}

/// in-place intersection keeps exactly the common positions, in order (concrete lengths: a
/// symbolic Vec length makes CBMC run out of memory)
fn inplace<const LL: usize, const RL: usize>() {
    let l = sorted3(LL);
    let r = sorted3(RL);
    let mut left: Vec<u32> = Vec::with_capacity(3);
    left.extend_from_slice(&l[..LL]);
    intersection(&mut left, &r[..RL]);
    let n = left.len();
    assert!(n <= LL && n <= RL);
    let inr = |v: u32| (RL > 0 && r[0] == v) || (RL > 1 && r[1] == v) || (RL > 2 && r[2] == v);
    let inl = |v: u32| (LL > 0 && l[0] == v) || (LL > 1 && l[1] == v) || (LL > 2 && l[2] == v);
    let mut k = 0;
    let mut common = 0usize;
    while k < 3 {
        if k < n {
            assert!(inr(left[k]) && inl(left[k]));
            if k > 0 {
                assert!(left[k - 1] < left[k]);
            }
        }
        if k < LL && inr(l[k]) {
            common += 1;
        }
        k += 1;
    }
    assert!(n == common);
    kani::cover!(n == 1);
    std::mem::forget(left);
}

#[kani::proof]
#[kani::unwind(6)]
fn c03_phrase_intersection_inplace_2x2() {
    inplace::<2, 2>();
}

#[kani::proof]
#[kani::unwind(6)]
fn c03_phrase_intersection_inplace_3x2() {
    inplace::<3, 2>();
}

#[kani::proof]
#[kani::unwind(6)]
fn c03_phrase_intersection_inplace_3x3() {
    inplace::<3, 3>();
}

/// slop 0 degenerates to the exact intersection count; with slop the count never exceeds
/// min(|l|,|r|) and is > 0 exactly when some pair is within the slop.
fn count_slop<const LL: usize, const RL: usize>() {
    let l = sorted3(LL);
    let r = sorted3(RL);
    let slop: u32 = kani::any();
    let mut left: Vec<u32> = Vec::with_capacity(3);
    left.extend_from_slice(&l[..LL]);
    let cnt = intersection_count_with_slop(&mut left, &r[..RL], slop, false);
    let exists = intersection_exists_with_slop(&l[..LL], &r[..RL], slop);
    assert!((cnt > 0) == exists);
    assert!(cnt <= LL && cnt <= RL);
    if slop == 0 {
        assert!(cnt == intersection_count(&l[..LL], &r[..RL]));
    }
    kani::cover!(cnt == 2 && slop > 0);
    std::mem::forget(left);
}

#[kani::proof]
#[kani::unwind(6)]
fn c03_phrase_count_with_slop_2x2() {
    count_slop::<2, 2>();
}

#[kani::proof]
#[kani::unwind(6)]
fn c03_phrase_count_with_slop_3x3() {
    count_slop::<3, 3>();
}
