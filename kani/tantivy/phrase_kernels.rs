// Kani harnesses compiled inside `tantivy::query::phrase_query::phrase_scorer`.
// C03: position-matching kernels of the phrase scorer against the quadratic definition.
#![allow(dead_code)]
use super::*;

fn sorted3(len: usize) -> [u32; 3] {
    let a: [u32; 3] = kani::any();
    if len > 1 {
        kani::assume(a[0] < a[1]);
    }
    if len > 2 {
        kani::assume(a[1] < a[2]);
    }
    a
}

#[kani::proof]
#[kani::unwind(8)]
fn c03_phrase_exists_count_slop() {
    let ll: usize = kani::any();
    let rl: usize = kani::any();
    kani::assume(ll <= 3 && rl <= 3);
    let l = sorted3(ll);
    let r = sorted3(rl);
    let slop: u32 = kani::any();
    // reference: quadratic scan
    let mut exists = false;
    let mut exists_slop = false;
    let mut count = 0usize;
    let mut i = 0;
    while i < 3 {
        let mut j = 0;
        while j < 3 {
            if i < ll && j < rl {
                if l[i] == r[j] {
                    exists = true;
                    count += 1;
                }
                if l[i].abs_diff(r[j]) <= slop {
                    exists_slop = true;
                }
            }
            j += 1;
        }
        i += 1;
    }
    assert_eq!(intersection_exists(&l[..ll], &r[..rl]), exists);
    assert_eq!(intersection_count(&l[..ll], &r[..rl]), count);
    assert_eq!(intersection_exists_with_slop(&l[..ll], &r[..rl], slop), exists_slop);
    kani::cover!(count == 2 && !exists_slop == false, "two common positions");
}

/// in-place intersection keeps exactly the common positions, in order
fn inplace(maxlen: usize) {
    let ll: usize = kani::any();
    let rl: usize = kani::any();
    kani::assume(ll <= maxlen && rl <= maxlen);
    let l = sorted3(ll);
    let r = sorted3(rl);
    let mut left: Vec<u32> = Vec::with_capacity(3);
    let mut i = 0;
    while i < 3 {
        if i < ll {
            left.push(l[i]);
        }
        i += 1;
    }
    intersection(&mut left, &r[..rl]);
    // every kept value is common, kept values strictly increase, and every common value is kept
    let n = left.len();
    assert!(n <= ll);
    let inr = |v: u32| (rl > 0 && r[0] == v) || (rl > 1 && r[1] == v) || (rl > 2 && r[2] == v);
    let inl = |v: u32| (ll > 0 && l[0] == v) || (ll > 1 && l[1] == v) || (ll > 2 && l[2] == v);
    let mut k = 0;
    let mut common = 0usize;
    while k < 3 {
        if k < n {
            assert!(inr(left[k]) && inl(left[k]));
            if k > 0 {
                assert!(left[k - 1] < left[k]);
            }
        }
        if k < ll && inr(l[k]) {
            common += 1;
        }
        k += 1;
    }
    assert!(n == common);
    kani::cover!(n == 2);
    std::mem::forget(left);
}

#[kani::proof]
#[kani::unwind(8)]
fn c03_phrase_intersection_inplace_len2() {
    inplace(2);
}

#[kani::proof]
#[kani::unwind(8)]
fn c03_phrase_intersection_inplace_len3() {
    inplace(3);
}

/// slop 0 degenerates to the exact intersection count; with slop the count never exceeds
/// min(|l|,|r|) and is > 0 exactly when some pair is within the slop.
fn count_slop(maxlen: usize) {
    let ll: usize = kani::any();
    let rl: usize = kani::any();
    kani::assume(ll <= maxlen && rl <= maxlen);
    let l = sorted3(ll);
    let r = sorted3(rl);
    let slop: u32 = kani::any();
    let mut left: Vec<u32> = Vec::with_capacity(3);
    let mut i = 0;
    while i < 3 {
        if i < ll {
            left.push(l[i]);
        }
        i += 1;
    }
    let cnt = intersection_count_with_slop(&mut left, &r[..rl], slop, false);
    let exists = intersection_exists_with_slop(&l[..ll], &r[..rl], slop);
    assert!((cnt > 0) == exists);
    assert!(cnt <= ll && cnt <= rl);
    if slop == 0 {
        assert!(cnt == intersection_count(&l[..ll], &r[..rl]));
    }
    kani::cover!(cnt == 2 && slop > 0);
    std::mem::forget(left);
}

#[kani::proof]
#[kani::unwind(8)]
fn c03_phrase_count_with_slop_len2() {
    count_slop(2);
}

#[kani::proof]
#[kani::unwind(8)]
fn c03_phrase_count_with_slop_len3() {
    count_slop(3);
}
