// Kani harnesses compiled inside `tantivy::snippet`.
// C19: highlight range arithmetic: merge_overlapping_ranges returns sorted, pairwise disjoint
// ranges with the same union as its (sorted, deduplicated) input.
#![allow(dead_code)]
use super::*;

fn merge_ranges<const N: usize>() {
    let s: [usize; 3] = kani::any();
    let e: [usize; 3] = kani::any();
    // concrete number of ranges per harness (a symbolic Vec length runs CBMC out of memory)
    let mut input: Vec<Range<usize>> = Vec::with_capacity(4);
    let mut i = 0;
    while i < N {
        kani::assume(s[i] < e[i] && e[i] < 1000);
        // sorted by (start, end) and deduplicated, as sort_and_deduplicate_ranges returns
        if i > 0 {
            kani::assume(s[i - 1] < s[i] || (s[i - 1] == s[i] && e[i - 1] < e[i]));
        }
        input.push(s[i]..e[i]);
        i += 1;
    }
    let out = merge_overlapping_ranges(&input);
    assert!(out.len() <= N && (N == 0 || out.len() >= 1));
    let mut k = 0;
    while k < 3 {
        if k < out.len() {
            assert!(out[k].start < out[k].end);
            if k > 0 {
                assert!(out[k - 1].end <= out[k].start);
            }
        }
        k += 1;
    }
    // same union: an arbitrary point is covered by the output iff it is covered by the input
    let p: usize = kani::any();
    let mut in_in = false;
    let mut in_out = false;
    let mut k = 0;
    while k < 3 {
        if k < N && s[k] <= p && p < e[k] {
            in_in = true;
        }
        if k < out.len() && out[k].start <= p && p < out[k].end {
            in_out = true;
        }
        k += 1;
    }
    assert!(in_in == in_out);
    kani::cover!(N >= 2 && out.len() == N - 1, "one merge");
    std::mem::forget(out);
    std::mem::forget(input);
}

#[kani::proof]
#[kani::unwind(5)]
fn c19_merge_overlapping_ranges_n2() {
    merge_ranges::<2>();
}

#[kani::proof]
#[kani::unwind(5)]
fn c19_merge_overlapping_ranges_n3() {
    merge_ranges::<3>();
}
