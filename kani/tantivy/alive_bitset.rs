// Kani harnesses compiled inside `tantivy::fastfield::alive_bitset`.
// C02: the delete bitset codec: what write_alive_bitset writes, AliveBitSet::open reads back.
#![allow(dead_code)]
use super::*;
use common::BitSet;

fn alive_codec<const N: u32>() {
    let mut bs = BitSet::with_max_value_and_full(N);
    assert!(bs.len() == N as usize);
    let d1: u32 = kani::any();
    let d2: u32 = kani::any();
    kani::assume(d1 < N && d2 < N);
    bs.remove(d1);
    bs.remove(d2);
    let exp_alive = if d1 == d2 { N - 1 } else { N - 2 };
    assert!(bs.len() == exp_alive as usize);
    let mut buf: Vec<u8> = Vec::with_capacity(64);
    match write_alive_bitset(&bs, &mut buf) {
        Ok(()) => {}
        Err(e) => {
            std::mem::forget(e);
            panic!()
        }
    }
    let alive = AliveBitSet::open(OwnedBytes::new(buf));
    let q: u32 = kani::any();
    kani::assume(q < N);
    assert_eq!(alive.is_alive(q), q != d1 && q != d2);
    assert_eq!(alive.is_deleted(q), q == d1 || q == d2);
    assert_eq!(alive.num_alive_docs(), exp_alive as usize);
    kani::cover!(d1 != d2 && d1 / 64 != d2 / 64, "removals in different words");
    std::mem::forget(alive);
    std::mem::forget(bs);
}

#[kani::proof]
#[kani::unwind(12)]
fn c02_alive_bitset_codec_70() {
    alive_codec::<70>();
}

#[kani::proof]
#[kani::unwind(12)]
fn c02_alive_bitset_codec_64() {
    alive_codec::<64>();
}

#[kani::proof]
#[kani::unwind(12)]
fn c02_alive_bitset_codec_129() {
    alive_codec::<129>();
}
