// Kani harnesses compiled inside `tantivy::collector::sort_key::sort_by_score`.
// C06: TopNHeap (score path feeding block-max WAND) returns only top-K members and its
// threshold is the exact K-th best score.
#![allow(dead_code)]
use super::*;

fn heap_check<const K: usize, const M: usize>() {
    let scores_raw: [u8; M] = kani::any();
    let mut top = TopNHeap::new(K);
    let mut i = 0;
    while i < M {
        top.push(scores_raw[i] as Score, i as DocId);
        // threshold is only ever raised
        i += 1;
    }
    let thr = top.threshold;
    let res = top.into_vec();
    assert!(res.len() == if K < M { K } else { M });
    // every returned doc has rank < K by (score desc, doc asc); ranks are distinct
    let mut seen_ranks = 0u32;
    let mut r = 0;
    while r < K && r < M {
        let (s, d) = res[r];
        assert!((d as usize) < M && s == scores_raw[d as usize] as Score);
        let mut better = 0;
        let mut j = 0;
        while j < M {
            let sj = scores_raw[j] as Score;
            if sj > s || (sj == s && j < d as usize) {
                better += 1;
            }
            j += 1;
        }
        assert!(better < K);
        assert!(seen_ranks & (1 << better) == 0);
        seen_ranks |= 1 << better;
        r += 1;
    }
    if M >= K {
        // threshold = exact K-th best score
        let t = thr.unwrap();
        let mut ge = 0;
        let mut gt = 0;
        let mut j = 0;
        while j < M {
            let sj = scores_raw[j] as Score;
            if sj >= t {
                ge += 1;
            }
            if sj > t {
                gt += 1;
            }
            j += 1;
        }
        assert!(ge >= K && gt < K);
    } else {
        assert!(thr.is_none());
    }
    kani::cover!(M > K && scores_raw[0] == scores_raw[M - 1], "tie between first and last");
    std::mem::forget(res);
}

#[kani::proof]
#[kani::unwind(8)]
fn c06_topnheap_k1_m4() {
    heap_check::<1, 4>();
}

#[kani::proof]
#[kani::unwind(8)]
fn c06_topnheap_k2_m5() {
    heap_check::<2, 5>();
}

#[kani::proof]
#[kani::unwind(8)]
fn c06_topnheap_k3_m6() {
    heap_check::<3, 6>();
}

#[kani::proof]
#[kani::unwind(8)]
fn c06_topnheap_k3_m2() {
    heap_check::<3, 2>();
}
