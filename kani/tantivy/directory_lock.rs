// Kani harnesses compiled inside `tantivy::directory::directory`.
// C18: the default `Directory::acquire_lock` + `DirectoryLockGuard` as a state machine over a
// directory with one lock slot and create-new semantics for open_write.
#![allow(dead_code)]
use std::io::{self, Write};
use std::path::{Path, PathBuf};
use std::sync::atomic::{AtomicBool, AtomicU32, Ordering};
use std::sync::Arc;

use super::*;
use crate::directory::error::{DeleteError, OpenReadError, OpenWriteError};
use crate::directory::{AntiCallToken, FileHandle, TerminatingWrite, WatchCallback, WatchHandle, WritePtr};

#[derive(Clone, Debug)]
struct LockDir {
    held: Arc<AtomicBool>,
    /// the next open_write fails with an I/O error (one shot)
    fail_next: Arc<AtomicBool>,
    creates: Arc<AtomicU32>,
    deletes: Arc<AtomicU32>,
}

impl LockDir {
    fn new() -> LockDir {
        LockDir {
            held: Arc::new(AtomicBool::new(false)),
            fail_next: Arc::new(AtomicBool::new(false)),
            creates: Arc::new(AtomicU32::new(0)),
            deletes: Arc::new(AtomicU32::new(0)),
        }
    }
    fn is_held(&self) -> bool {
        self.held.load(Ordering::Relaxed)
    }
}

struct NullWriter;
impl Write for NullWriter {
    fn write(&mut self, buf: &[u8]) -> io::Result<usize> {
        Ok(buf.len())
    }
    fn flush(&mut self) -> io::Result<()> {
        Ok(())
    }
}
impl TerminatingWrite for NullWriter {
    fn terminate_ref(&mut self, _: AntiCallToken) -> io::Result<()> {
        Ok(())
    }
}

impl Directory for LockDir {
    fn get_file_handle(&self, path: &Path) -> Result<Arc<dyn FileHandle>, OpenReadError> {
        Err(OpenReadError::FileDoesNotExist(PathBuf::from(path)))
    }
    fn delete(&self, _path: &Path) -> Result<(), DeleteError> {
        self.held.store(false, Ordering::Relaxed);
        self.deletes.store(self.deletes.load(Ordering::Relaxed) + 1, Ordering::Relaxed);
        Ok(())
    }
    fn exists(&self, _path: &Path) -> Result<bool, OpenReadError> {
        Ok(self.is_held())
    }
    fn open_write(&self, path: &Path) -> Result<WritePtr, OpenWriteError> {
        if self.fail_next.load(Ordering::Relaxed) {
            self.fail_next.store(false, Ordering::Relaxed);
            return Err(OpenWriteError::wrap_io_error(
                io::Error::from(io::ErrorKind::Other),
                PathBuf::new(),
            ));
        }
        if self.is_held() {
            return Err(OpenWriteError::FileAlreadyExists(PathBuf::from(path)));
        }
        self.held.store(true, Ordering::Relaxed);
        self.creates.store(self.creates.load(Ordering::Relaxed) + 1, Ordering::Relaxed);
        Ok(io::BufWriter::new(Box::new(NullWriter)))
    }
    fn atomic_read(&self, path: &Path) -> Result<Vec<u8>, OpenReadError> {
        Err(OpenReadError::FileDoesNotExist(PathBuf::from(path)))
    }
    fn atomic_write(&self, _path: &Path, _data: &[u8]) -> io::Result<()> {
        Ok(())
    }
    fn sync_directory(&self) -> io::Result<()> {
        Ok(())
    }
    fn watch(&self, _watch_callback: WatchCallback) -> crate::Result<WatchHandle> {
        Ok(WatchHandle::empty())
    }
}

fn writer_lock() -> Lock {
    // same shape as INDEX_WRITER_LOCK (checked against the real static in c18_lock_statics)
    Lock { filepath: PathBuf::from(".tantivy-writer.lock"), is_blocking: false }
}

/// Symbolic program of 4 steps over {acquire, acquire with injected I/O error, drop the live
/// guard}: at most one guard is ever live; acquire succeeds iff no guard is live; a failed
/// acquire changes nothing; dropping the guard frees the slot.
fn lock_machine(steps: usize) {
    let dir = LockDir::new();
    let lock = writer_lock();
    let mut guard: Option<DirectoryLock> = None;
    let mut step = 0;
    while step < steps {
        let op: u8 = kani::any();
        kani::assume(op < 3);
        let live = guard.is_some();
        assert!(dir.is_held() == live);
        if op == 0 || op == 1 {
            if op == 1 {
                dir.fail_next.store(true, Ordering::Relaxed);
            }
            match dir.acquire_lock(&lock) {
                Ok(g) => {
                    // success only when nobody holds the lock and no fault was injected
                    assert!(!live && op == 0);
                    assert!(dir.is_held());
                    guard = Some(g);
                }
                Err(e) => {
                    assert!(live || op == 1);
                    match &e {
                        LockError::LockBusy => assert!(live && op == 0),
                        LockError::IoError(_) => assert!(op == 1),
                    }
                    // the slot is unchanged
                    assert!(dir.is_held() == live);
                    std::mem::forget(e);
                }
            }
        } else {
            if let Some(g) = guard.take() {
                drop(g);
                assert!(!dir.is_held());
            }
        }
        step += 1;
    }
    kani::cover!(dir.creates.load(Ordering::Relaxed) >= 1 && dir.deletes.load(Ordering::Relaxed) >= 1, "acquired and released");
    assert!(dir.creates.load(Ordering::Relaxed) <= dir.deletes.load(Ordering::Relaxed) + 1);
    std::mem::forget(guard);
    std::mem::forget(dir);
}

#[kani::proof]
#[kani::unwind(3)]
fn c18_lock_state_machine_2steps() {
    lock_machine(2);
}

#[kani::proof]
#[kani::unwind(3)]
fn c18_lock_state_machine_3steps() {
    lock_machine(3);
}

/// a failed acquire (I/O error while creating the lock file) leaves the lock free
#[kani::proof]
#[kani::unwind(3)]
fn c18_lock_io_error_then_acquire() {
    let dir = LockDir::new();
    let lock = writer_lock();
    dir.fail_next.store(true, Ordering::Relaxed);
    let l1 = dir.acquire_lock(&lock);
    match &l1 {
        Err(LockError::IoError(_)) => {}
        _ => panic!("an I/O error must be reported as LockError::IoError"),
    }
    std::mem::forget(l1);
    assert!(!dir.is_held());
    let l2 = dir.acquire_lock(&lock);
    assert!(l2.is_ok() && dir.is_held());
    kani::cover!(dir.creates.load(Ordering::Relaxed) == 1);
    std::mem::forget(l2);
    std::mem::forget(dir);
}

#[kani::proof]
#[kani::unwind(3)]
fn c18_lock_state_machine_4steps() {
    lock_machine(4);
}

/// the fixed scenario: acquire / acquire (busy) / drop / acquire
#[kani::proof]
#[kani::unwind(3)]
fn c18_lock_fixed_scenario() {
    let dir = LockDir::new();
    let lock = writer_lock();
    let l1 = dir.acquire_lock(&lock);
    assert!(l1.is_ok() && dir.is_held());
    let l2 = dir.acquire_lock(&lock);
    match &l2 {
        Err(LockError::LockBusy) => {}
        _ => panic!("second acquire must report LockBusy"),
    }
    std::mem::forget(l2);
    assert!(dir.is_held());
    drop(l1);
    assert!(!dir.is_held());
    let l3 = dir.acquire_lock(&lock);
    assert!(l3.is_ok() && dir.is_held());
    kani::cover!(dir.creates.load(Ordering::Relaxed) == 2);
    std::mem::forget(l3);
    std::mem::forget(dir);
}

fn stub_current() -> std::thread::Thread {
    panic!("thread::current stubbed")
}
fn stub_park() {
    panic!("thread::park stubbed")
}

/// The two lock descriptors: the writer lock is non-blocking, the meta lock is blocking, and
/// they use different files.
#[kani::proof]
#[kani::unwind(32)]
#[kani::stub(std::thread::current::current, stub_current)]
#[kani::stub(std::thread::functions::park, stub_park)]
fn c18_lock_statics() {
    use crate::directory::{INDEX_WRITER_LOCK, META_LOCK};
    assert!(!INDEX_WRITER_LOCK.is_blocking);
    assert!(META_LOCK.is_blocking);
    assert!(INDEX_WRITER_LOCK.filepath != META_LOCK.filepath);
    assert!(retry_policy(false).num_retries == 0);
    assert!(retry_policy(true).num_retries > 0);
    kani::cover!(true);
}
