// Kani harnesses compiled inside `tantivy::query::range_query::range_query_fastfield`.
// C03: numeric range bounds. A column value c of the column's type matches the query iff it
// satisfies the written bounds numerically; the real functions map the bounds into the
// order-preserving u64 space the column is scanned in.
#![allow(dead_code)]
use std::ops::Bound;

use common::bounds::BoundsRange;

use super::*;

fn sat_lower_u64(b: &Bound<u64>, m: u64) -> bool {
    match b {
        Bound::Included(y) => m >= *y,
        Bound::Excluded(y) => m > *y,
        Bound::Unbounded => true,
    }
}
fn sat_upper_u64(b: &Bound<u64>, m: u64) -> bool {
    match b {
        Bound::Included(y) => m <= *y,
        Bound::Excluded(y) => m < *y,
        Bound::Unbounded => true,
    }
}
fn any_bound_u64() -> Bound<u64> {
    let k: u8 = kani::any();
    kani::assume(k < 3);
    let v: u64 = kani::any();
    match k {
        0 => Bound::Included(v),
        1 => Bound::Excluded(v),
        _ => Bound::Unbounded,
    }
}

/// bound_to_value_range: for every value of the column (min <= m <= max) membership in the
/// returned inclusive range = satisfaction of both bounds; None only when nothing can match
#[kani::proof]
fn c03_bound_to_value_range_u64() {
    let (lo, hi) = (any_bound_u64(), any_bound_u64());
    let min: u64 = kani::any();
    let max: u64 = kani::any();
    let m: u64 = kani::any();
    kani::assume(min <= m && m <= max);
    let want = sat_lower_u64(&lo, m) && sat_upper_u64(&hi, m);
    match bound_to_value_range::<u64>(&lo, &hi, min, max) {
        Some(r) => assert_eq!(r.contains(&m), want),
        None => assert!(!want),
    }
    kani::cover!(want);
}

// f64 literals on integer columns ------------------------------------------------------------

fn any_bound_f64() -> Bound<f64> {
    let k: u8 = kani::any();
    kani::assume(k < 3);
    let v: f64 = kani::any();
    // finite literals, |v| <= 2^53: every integer of that magnitude is an exact f64, so the
    // numeric comparison of the oracle below is exact
    kani::assume(v.is_finite() && v >= -9007199254740992.0 && v <= 9007199254740992.0);
    match k {
        0 => Bound::Included(v),
        1 => Bound::Excluded(v),
        _ => Bound::Unbounded,
    }
}
fn sat_lower_f64(b: &Bound<f64>, c: f64) -> bool {
    match b {
        Bound::Included(y) => c >= *y,
        Bound::Excluded(y) => c > *y,
        Bound::Unbounded => true,
    }
}
fn sat_upper_f64(b: &Bound<f64>, c: f64) -> bool {
    match b {
        Bound::Included(y) => c <= *y,
        Bound::Excluded(y) => c < *y,
        Bound::Unbounded => true,
    }
}

/// f64 literal on an i64 column, lower bound only
#[kani::proof]
fn c03_f64_bounds_on_i64_column_lower() {
    let lo = any_bound_f64();
    let c: i64 = kani::any();
    kani::assume(c >= -9007199254740992 && c <= 9007199254740992);
    let out = transform_from_f64_bounds::<i64>(&BoundsRange::new(lo, Bound::Unbounded));
    let m = c.to_u64();
    assert_eq!(sat_lower_u64(&out.lower_bound, m), sat_lower_f64(&lo, c as f64));
    assert!(matches!(out.upper_bound, Bound::Unbounded));
    kani::cover!(sat_lower_f64(&lo, c as f64) && c < 0);
}

/// f64 literal on an i64 column, upper bound only
#[kani::proof]
fn c03_f64_bounds_on_i64_column_upper() {
    let hi = any_bound_f64();
    let c: i64 = kani::any();
    kani::assume(c >= -9007199254740992 && c <= 9007199254740992);
    let out = transform_from_f64_bounds::<i64>(&BoundsRange::new(Bound::Unbounded, hi));
    let m = c.to_u64();
    assert_eq!(sat_upper_u64(&out.upper_bound, m), sat_upper_f64(&hi, c as f64));
    kani::cover!(sat_upper_f64(&hi, c as f64) && c < 0);
}

/// f64 literal on a u64 column
#[kani::proof]
fn c03_f64_bounds_on_u64_column() {
    let (lo, hi) = (any_bound_f64(), any_bound_f64());
    let c: u64 = kani::any();
    kani::assume(c <= 9007199254740992);
    let out = transform_from_f64_bounds::<u64>(&BoundsRange::new(lo, hi));
    assert_eq!(sat_lower_u64(&out.lower_bound, c), sat_lower_f64(&lo, c as f64));
    assert_eq!(sat_upper_u64(&out.upper_bound, c), sat_upper_f64(&hi, c as f64));
    kani::cover!(sat_lower_f64(&lo, c as f64) && sat_upper_f64(&hi, c as f64));
}

/// IP ranges: an address matches iff it satisfies both bounds (addresses as u128)
#[kani::proof]
fn c03_bound_range_inclusive_ip() {
    use std::net::Ipv6Addr;
    let (a, b): (u128, u128) = (kani::any(), kani::any());
    let (ka, kb): (u8, u8) = (kani::any(), kani::any());
    kani::assume(ka < 3 && kb < 3);
    let mk = |k: u8, v: u128| match k {
        0 => Bound::Included(Ipv6Addr::from(v)),
        1 => Bound::Excluded(Ipv6Addr::from(v)),
        _ => Bound::Unbounded,
    };
    let (lo, hi) = (mk(ka, a), mk(kb, b));
    let x: u128 = kani::any();
    let r = bound_range_inclusive_ip(&lo, &hi, Ipv6Addr::from(0u128), Ipv6Addr::from(u128::MAX));
    let want = (match ka { 0 => x >= a, 1 => x > a, _ => true }) && (match kb { 0 => x <= b, 1 => x < b, _ => true });
    // None = nothing can match (an exclusive bound at the extreme address)
    match r {
        Some(r) => assert_eq!(r.contains(&Ipv6Addr::from(x)), want),
        None => assert!(!want),
    }
    kani::cover!(want);
}
