// Kani harnesses compiled inside `tantivy::collector::sort_key_top_collector`.
// C06: merge_top_k over per-segment fruits. A segment fruit is the segment's top (offset+K)
// in ARBITRARY order (TopNComputer::into_vec / TopNHeap::into_vec promise no order); the
// fruits are flattened in segment order. Result must be entries offset..offset+K of the global
// ranking by (key desc, address asc).
#![allow(dead_code)]
use super::*;
use crate::collector::sort_key::NaturalComparator;

fn merge_check<const K: usize, const S0: usize, const S1: usize, const S2: usize, const M: usize>(key_bound: u8) {
    // M = S0 + S1 + S2 items; item i belongs to segment seg(i); docs inside a segment are a
    // symbolic sequence of distinct ids (any order)
    let keys: [u8; M] = kani::any();
    let docs: [u8; M] = kani::any();
    let mut i = 0;
    while i < M {
        kani::assume(keys[i] < key_bound);
        kani::assume(docs[i] < 16);
        i += 1;
    }
    let seg = |i: usize| -> u32 {
        if i < S0 {
            0
        } else if i < S0 + S1 {
            1
        } else {
            2
        }
    };
    // distinct docs within a segment
    let mut a = 0;
    while a < M {
        let mut b = 0;
        while b < M {
            if b < a && seg(a) == seg(b) {
                kani::assume(docs[a] != docs[b]);
            }
            b += 1;
        }
        a += 1;
    }
    let mut items: Vec<(u8, DocAddress)> = Vec::with_capacity(M);
    let mut i = 0;
    while i < M {
        items.push((keys[i], DocAddress::new(seg(i), docs[i] as u32)));
        i += 1;
    }
    let res = merge_top_k(items.into_iter(), 0..K, NaturalComparator);
    assert!(res.len() == if K < M { K } else { M });
    let mut r = 0;
    while r < K && r < M {
        let (k, addr) = res[r];
        // the entry is one of the inputs
        let mut idx = M;
        let mut j = 0;
        while j < M {
            if seg(j) == addr.segment_ord && docs[j] as u32 == addr.doc_id {
                idx = j;
            }
            j += 1;
        }
        assert!(idx < M);
        assert!(k == keys[idx]);
        // and exactly r inputs are better by (key desc, address asc)
        let mut better = 0;
        let mut j = 0;
        while j < M {
            let aj = (seg(j), docs[j]);
            let ai = (seg(idx), docs[idx]);
            if keys[j] > k || (keys[j] == k && aj < ai) {
                better += 1;
            }
            j += 1;
        }
        assert!(better == r);
        r += 1;
    }
    kani::cover!(M > 2 * K, "merge buffer was truncated at least once");
    std::mem::forget(res);
}

#[kani::proof]
#[kani::unwind(8)]
fn c06_merge_top_k_k2_3segs() {
    merge_check::<2, 2, 2, 2, 6>(4);
}

#[kani::proof]
#[kani::unwind(12)]
fn c06_merge_top_k_k4_3segs() {
    merge_check::<4, 4, 2, 4, 10>(3);
}

/// The tie-break case that needs K >= 4: three segments; the first two contribute six items
/// with concrete keys; the third contributes four items sharing ONE symbolic key, in an
/// ARBITRARY (symbolic) order of their doc ids - what `into_vec()` of a segment collector may
/// return. The result must be the global top 4 by (key desc, address asc).
#[kani::proof]
#[kani::unwind(12)]
fn c06_merge_top_k_k4_unordered_last_segment() {
    const M: usize = 10;
    let k3: u8 = kani::any();
    kani::assume(k3 <= 2);
    let d: [u8; 4] = kani::any();
    // a permutation of doc ids 0..4 for the third segment
    let mut seen = 0u8;
    let mut i = 0;
    while i < 4 {
        kani::assume(d[i] < 4);
        seen |= 1 << d[i];
        i += 1;
    }
    kani::assume(seen == 0b1111);
    let keys: [u8; M] = [2, 2, 2, 0, 0, 0, k3, k3, k3, k3];
    let segs: [u32; M] = [0, 0, 0, 0, 1, 1, 2, 2, 2, 2];
    let docs: [u8; M] = [0, 1, 2, 3, 0, 1, d[0], d[1], d[2], d[3]];
    let mut items: Vec<(u8, DocAddress)> = Vec::with_capacity(M);
    let mut i = 0;
    while i < M {
        items.push((keys[i], DocAddress::new(segs[i], docs[i] as u32)));
        i += 1;
    }
    let res = merge_top_k(items.into_iter(), 0..4, NaturalComparator);
    assert!(res.len() == 4);
    let mut r = 0;
    while r < 4 {
        let (k, addr) = res[r];
        let mut better = 0;
        let mut found = false;
        let mut j = 0;
        while j < M {
            let aj = (segs[j], docs[j] as u32);
            let ai = (addr.segment_ord, addr.doc_id);
            if aj == ai {
                found = true;
                assert!(keys[j] == k);
            }
            if keys[j] > k || (keys[j] == k && aj < ai) {
                better += 1;
            }
            j += 1;
        }
        assert!(found);
        assert!(better == r);
        r += 1;
    }
    kani::cover!(k3 == 1 && d[0] == 3, "third segment handed over in descending doc order");
    std::mem::forget(res);
}
