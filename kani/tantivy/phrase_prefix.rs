// Kani harnesses compiled inside `tantivy::query::phrase_prefix_query::phrase_prefix_scorer`.
// C13 / C03: PhrasePrefixScorer (single-prefix kind: one full term + prefix expansions) over
// array-backed postings with symbolic documents AND positions: every 2-call program over
// {advance, seek(t), seek_danger(t)} observes the sorted sequence of documents in which the term
// is immediately followed by an expansion of the prefix.
#![allow(dead_code)]
use super::*;
use crate::docset::{DocSet, SeekDangerResult, TERMINATED};
use crate::fieldnorm::FieldNormReader;
use crate::postings::Postings;
use crate::DocId;

const ND: usize = 2; // docs per posting list
const NP: usize = 1; // positions per doc

#[derive(Clone, Copy)]
pub(crate) struct ArrPostings {
    docs: [DocId; ND],
    len: usize,
    pos: [[u32; NP]; ND],
    npos: [usize; ND],
    cur: usize,
}

impl ArrPostings {
    pub(crate) fn any(max_doc: DocId) -> ArrPostings {
        let docs: [DocId; ND] = kani::any();
        let len: usize = kani::any();
        kani::assume(len <= ND);
        if len > 1 {
            kani::assume(docs[0] < docs[1]);
        }
        if len > 0 {
            kani::assume(docs[len - 1] < max_doc);
        }
        let pos: [[u32; NP]; ND] = kani::any();
        let npos: [usize; ND] = kani::any();
        let mut d = 0;
        while d < ND {
            kani::assume(npos[d] >= 1 && npos[d] <= NP);
            kani::assume(pos[d][0] < 1000);
            d += 1;
        }
        ArrPostings { docs, len, pos, npos, cur: 0 }
    }
    fn idx(&self, doc: DocId) -> Option<usize> {
        if self.len > 0 && self.docs[0] == doc {
            Some(0)
        } else if self.len > 1 && self.docs[1] == doc {
            Some(1)
        } else {
            None
        }
    }
    /// has position p in document doc
    pub(crate) fn has(&self, doc: DocId, p: u32) -> bool {
        match self.idx(doc) {
            None => false,
            Some(i) => self.pos[i][0] == p,
        }
    }
}

impl DocSet for ArrPostings {
    fn advance(&mut self) -> DocId {
        if self.cur < self.len {
            self.cur += 1;
        }
        self.doc()
    }
    fn doc(&self) -> DocId {
        if self.cur >= self.len {
            TERMINATED
        } else {
            self.docs[self.cur]
        }
    }
    fn size_hint(&self) -> u32 {
        self.len as u32
    }
}

impl Postings for ArrPostings {
    fn term_freq(&self) -> u32 {
        if self.cur < self.len {
            self.npos[self.cur] as u32
        } else {
            0
        }
    }
    fn append_positions_with_offset(&mut self, offset: u32, output: &mut Vec<u32>) {
        if self.cur < self.len {
            let mut k = 0;
            while k < NP {
                if k < self.npos[self.cur] {
                    output.push(self.pos[self.cur][k] + offset);
                }
                k += 1;
            }
        }
    }
}

/// "term immediately followed by the expansion" in document d
fn matches(a: &ArrPostings, s: &ArrPostings, d: DocId) -> bool {
    let mut m = false;
    if let Some(i) = a.idx(d) {
        let mut k = 0;
        while k < NP {
            if k < a.npos[i] && s.has(d, a.pos[i][k] + 1) {
                m = true;
            }
            k += 1;
        }
    }
    m
}

fn next_match(a: &ArrPostings, s: &ArrPostings, target: DocId) -> DocId {
    let mut best = TERMINATED;
    let mut i = 0;
    while i < ND {
        if i < a.len && a.docs[i] >= target && a.docs[i] < best && matches(a, s, a.docs[i]) {
            best = a.docs[i];
        }
        i += 1;
    }
    best
}

fn scorer(a: ArrPostings, s: ArrPostings) -> PhrasePrefixScorer<ArrPostings> {
    // "a <prefix>*": term at position 0, prefix at position 1, one expansion `s`
    PhrasePrefixScorer::new(vec![(0usize, a)], None, FieldNormReader::constant(100, 1), vec![s], 1)
}

/// op 0 advance, 1 seek(t), 2 seek_danger(t) followed (if not Found) by seek_danger(TERMINATED)
fn step(ds: &mut PhrasePrefixScorer<ArrPostings>, a: &ArrPostings, s: &ArrPostings, op: u8) -> bool {
    let cur = ds.doc();
    if op == 0 {
        let got = ds.advance();
        let exp = if cur == TERMINATED { TERMINATED } else { next_match(a, s, cur + 1) };
        assert_eq!(got, exp);
        assert_eq!(ds.doc(), got);
        true
    } else if op == 1 {
        let t: DocId = kani::any();
        kani::assume(t >= cur && t <= TERMINATED);
        let got = ds.seek(t);
        let exp = if t == TERMINATED { TERMINATED } else { next_match(a, s, t) };
        assert_eq!(got, exp);
        assert_eq!(ds.doc(), got);
        true
    } else {
        let t: DocId = kani::any();
        kani::assume(t >= cur && t < TERMINATED);
        let exp = next_match(a, s, t);
        match ds.seek_danger(t) {
            SeekDangerResult::Found => {
                // the target is in the set and the docset is positioned on it
                assert!(exp == t);
                assert_eq!(ds.doc(), t);
                assert!(ds.phrase_count() >= 1);
                true
            }
            SeekDangerResult::SeekLowerBound(lb) => {
                // the target is not in the set; lb in (t, seek(t)] or TERMINATED
                assert!(exp != t);
                assert!(lb == TERMINATED || (lb > t && lb <= exp));
                // back to a valid state through seek_danger, as the contract requires
                match ds.seek_danger(TERMINATED) {
                    SeekDangerResult::Found => panic!("TERMINATED is never in a docset"),
                    SeekDangerResult::SeekLowerBound(x) => assert!(x >= TERMINATED),
                }
                // the docset may stay invalid from here on: the program ends
                false
            }
        }
    }
}

fn prog<const STEPS: usize, const OPLO: u8, const OPHI: u8>() {
    let a = ArrPostings::any(300);
    let s = ArrPostings::any(300);
    let mut ds = scorer(a, s);
    assert_eq!(ds.doc(), next_match(&a, &s, 0));
    let mut i = 0;
    let mut stop = false;
    while i < STEPS {
        if !stop {
            let op: u8 = kani::any();
            kani::assume(op >= OPLO && op < OPHI);
            if !step(&mut ds, &a, &s, op) {
                stop = true;
            }
        }
        i += 1;
    }
    kani::cover!(!stop && ds.doc() != TERMINATED, "program ends on a matching document");
    std::mem::forget(ds);
}

#[kani::proof]
#[kani::unwind(5)]
fn c13_phrase_prefix_single_seek_danger() {
    prog::<1, 2, 3>();
}

#[kani::proof]
#[kani::unwind(5)]
fn c13_phrase_prefix_single_seek_adv() {
    prog::<1, 0, 2>();
}

#[kani::proof]
#[kani::unwind(5)]
fn c13_phrase_prefix_single_prog2() {
    prog::<2, 0, 3>();
}

// ---------------------------------------------------------------------------------------------
// PhraseScorer (two terms, no slop) over the same array postings: "a b" matches document d iff
// some position p of `a` in d has p + 1 among the positions of `b` in d.
// ---------------------------------------------------------------------------------------------
use crate::query::phrase_query::PhraseScorer;

fn phrase_matches(a: &ArrPostings, b: &ArrPostings, d: DocId) -> bool {
    matches(a, b, d)
}

fn phrase_next(a: &ArrPostings, b: &ArrPostings, target: DocId) -> DocId {
    next_match(a, b, target)
}

fn phrase_prog<const OPLO: u8, const OPHI: u8>() {
    let a = ArrPostings::any(300);
    let b = ArrPostings::any(300);
    let mut ds = PhraseScorer::new(vec![(0usize, a), (1usize, b)], None, FieldNormReader::constant(100, 1), 0);
    assert_eq!(ds.doc(), phrase_next(&a, &b, 0));
    let op: u8 = kani::any();
    kani::assume(op >= OPLO && op < OPHI);
    let cur = ds.doc();
    if op == 0 {
        let got = ds.advance();
        assert_eq!(got, if cur == TERMINATED { TERMINATED } else { phrase_next(&a, &b, cur + 1) });
    } else if op == 1 {
        let t: DocId = kani::any();
        kani::assume(t >= cur && t <= TERMINATED);
        let got = ds.seek(t);
        assert_eq!(got, if t == TERMINATED { TERMINATED } else { phrase_next(&a, &b, t) });
        assert_eq!(ds.doc(), got);
    } else {
        let t: DocId = kani::any();
        kani::assume(t >= cur && t < TERMINATED);
        let exp = phrase_next(&a, &b, t);
        match ds.seek_danger(t) {
            SeekDangerResult::Found => {
                assert!(exp == t);
                assert_eq!(ds.doc(), t);
            }
            SeekDangerResult::SeekLowerBound(lb) => {
                assert!(exp != t);
                assert!(lb == TERMINATED || (lb > t && lb <= exp));
            }
        }
    }
    kani::cover!(ds.doc() != TERMINATED && ds.doc() > 0, "ends on a matching document");
    std::mem::forget(ds);
}

#[kani::proof]
#[kani::unwind(5)]
fn c13_phrase_scorer_seek_adv() {
    phrase_prog::<0, 2>();
}

#[kani::proof]
#[kani::unwind(5)]
fn c13_phrase_scorer_seek_danger() {
    phrase_prog::<2, 3>();
}
