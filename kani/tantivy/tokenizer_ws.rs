// Kani harnesses compiled inside `tantivy::tokenizer::whitespace_tokenizer`.
// C19: WhitespaceTokenizer offsets for every valid UTF-8 text of 2 / 3 bytes (it only uses
// `is_ascii_whitespace`, no Unicode tables: no stub needed).
#![allow(dead_code)]
use super::*;
use crate::tokenizer::{TokenStream, Tokenizer};

fn check_ws<const L: usize>(bytes: [u8; L]) {
    if let Ok(text) = std::str::from_utf8(&bytes[..]) {
        let mut tk = WhitespaceTokenizer::default();
        tk.token.text.reserve(8);
        let mut ts = tk.token_stream(text);
        let mut last_to = 0usize;
        let mut n = 0;
        while n < 3 && ts.advance() {
            let t = ts.token();
            assert!(t.offset_from < t.offset_to && t.offset_to <= text.len());
            assert!(text.is_char_boundary(t.offset_from) && text.is_char_boundary(t.offset_to));
            assert!(t.offset_from >= last_to);
            assert!(t.text.len() == t.offset_to - t.offset_from);
            // not normalised: the token is the slice it points to; no whitespace inside
            let b = text.as_bytes();
            let mut i = 0;
            while i < L {
                if i >= t.offset_from && i < t.offset_to {
                    assert!(!b[i].is_ascii_whitespace());
                    assert!(t.text.as_bytes()[i - t.offset_from] == b[i]);
                }
                i += 1;
            }
            last_to = t.offset_to;
            n += 1;
        }
        kani::cover!(n == 2, "two tokens");
        std::mem::forget(tk);
    }
}

#[kani::proof]
#[kani::unwind(5)]
fn c19_whitespace_tokenizer_utf8_len2() {
    check_ws::<2>(kani::any());
}

#[kani::proof]
#[kani::unwind(6)]
fn c19_whitespace_tokenizer_utf8_len3() {
    check_ws::<3>(kani::any());
}
