// Kani harnesses compiled inside `tantivy_bitpacker::bitpacker`.
// C08 (and C07: the term-info store and columns use it): BitPacker::write/close into a byte
// sink, BitUnpacker::get reads every value back; exact byte length; one harness per bit width.
#![allow(dead_code)]
use super::*;

struct Fixed {
    buf: [u8; 80],
    len: usize,
}
impl io::Write for Fixed {
    fn write(&mut self, data: &[u8]) -> io::Result<usize> {
        let mut i = 0;
        while i < data.len() {
            self.buf[self.len + i] = data[i];
            i += 1;
        }
        self.len += data.len();
        Ok(data.len())
    }
    fn flush(&mut self) -> io::Result<()> {
        Ok(())
    }
}

fn rt<const BITS: u8, const N: usize>() {
    let vals: [u64; N] = kani::any();
    let mask = if BITS == 64 { !0u64 } else { (1u64 << BITS) - 1 };
    let mut out = Fixed { buf: [0; 80], len: 0 };
    let mut bp = BitPacker::new();
    let mut i = 0;
    while i < N {
        // documented precondition: the value fits the announced width
        kani::assume(vals[i] <= mask);
        match bp.write(vals[i], BITS, &mut out) {
            Ok(()) => {}
            Err(e) => {
                std::mem::forget(e);
                panic!()
            }
        }
        i += 1;
    }
    match bp.close(&mut out) {
        Ok(()) => {}
        Err(e) => {
            std::mem::forget(e);
            panic!()
        }
    }
    assert!(out.len == (N * BITS as usize + 7) / 8);
    let unp = BitUnpacker::new(BITS);
    assert!(unp.bit_width() == BITS);
    let j: u32 = kani::any();
    kani::assume((j as usize) < N);
    // both the fast path (8 readable bytes) and the slow path (tail) are exercised by j
    assert_eq!(unp.get(j, &out.buf[..out.len]), vals[j as usize]);
    kani::cover!(j as usize == N - 1, "last value (slow path at the tail)");
}

#[kani::proof]
#[kani::unwind(10)]
fn c08_bitpacker_w0() {
    rt::<0, 5>();
}
#[kani::proof]
#[kani::unwind(10)]
fn c08_bitpacker_w1() {
    rt::<1, 9>();
}
#[kani::proof]
#[kani::unwind(10)]
fn c08_bitpacker_w7() {
    rt::<7, 5>();
}
#[kani::proof]
#[kani::unwind(10)]
fn c08_bitpacker_w8() {
    rt::<8, 5>();
}
#[kani::proof]
#[kani::unwind(10)]
fn c08_bitpacker_w9() {
    rt::<9, 5>();
}
#[kani::proof]
#[kani::unwind(10)]
fn c08_bitpacker_w31() {
    rt::<31, 5>();
}
#[kani::proof]
#[kani::unwind(10)]
fn c08_bitpacker_w32() {
    rt::<32, 5>();
}
#[kani::proof]
#[kani::unwind(10)]
fn c08_bitpacker_w33() {
    rt::<33, 5>();
}
#[kani::proof]
#[kani::unwind(10)]
fn c08_bitpacker_w56() {
    rt::<56, 5>();
}
#[kani::proof]
#[kani::unwind(10)]
fn c08_bitpacker_w64() {
    rt::<64, 4>();
}

/// reference behaviour of the SIMD kernel `get_ids_for_value_range_fast` (what it must compute),
/// used as a stub so that the dispatch / bound narrowing of `get_ids_for_value_range` can be
/// decided: ids of `id_range` whose value lies in the (already narrowed) u32 value range
fn stub_range_fast(
    this: &BitUnpacker,
    value_range: RangeInclusive<u32>,
    id_range: Range<u32>,
    data: &[u8],
    positions: &mut Vec<u32>,
) {
    positions.clear();
    let mut i = id_range.start;
    while i < id_range.end {
        let v = this.get(i, data) as u32;
        if v >= *value_range.start() && v <= *value_range.end() {
            positions.push(i);
        }
        i += 1;
    }
}

/// get_ids_for_value_range = filter of the id range by the u64 value range, for widths <= 32
/// (fast path; the u64 bounds are narrowed to u32 before the kernel is called) and > 32 (slow
/// path). The SIMD kernel itself is replaced by its specification (stub above).
fn ids_for_range<const BITS: u8>() {
    const N: usize = 3;
    let vals: [u64; N] = kani::any();
    let mask = if BITS == 64 { !0u64 } else { (1u64 << BITS) - 1 };
    let mut out = Fixed { buf: [0; 80], len: 0 };
    let mut bp = BitPacker::new();
    let mut i = 0;
    while i < N {
        kani::assume(vals[i] <= mask);
        match bp.write(vals[i], BITS, &mut out) {
            Ok(()) => {}
            Err(e) => {
                std::mem::forget(e);
                panic!()
            }
        }
        i += 1;
    }
    match bp.close(&mut out) {
        Ok(()) => {}
        Err(e) => {
            std::mem::forget(e);
            panic!()
        }
    }
    let unp = BitUnpacker::new(BITS);
    let (lo, hi): (u64, u64) = (kani::any(), kani::any());
    let mut positions: Vec<u32> = Vec::with_capacity(4);
    unp.get_ids_for_value_range(lo..=hi, 0..N as u32, &out.buf[..out.len], &mut positions);
    let mut expected = 0usize;
    let mut i = 0;
    while i < N {
        if vals[i] >= lo && vals[i] <= hi {
            assert!(expected < positions.len() && positions[expected] == i as u32);
            expected += 1;
        }
        i += 1;
    }
    assert!(positions.len() == expected);
    kani::cover!(expected == 2 && hi > u32::MAX as u64, "upper bound beyond 32 bits");
    std::mem::forget(positions);
}

#[kani::proof]
#[kani::unwind(10)]
#[kani::stub(BitUnpacker::get_ids_for_value_range_fast, stub_range_fast)]
fn c08_ids_for_value_range_w9() {
    ids_for_range::<9>();
}

#[kani::proof]
#[kani::unwind(10)]
#[kani::stub(BitUnpacker::get_ids_for_value_range_fast, stub_range_fast)]
fn c08_ids_for_value_range_w32() {
    ids_for_range::<32>();
}

#[kani::proof]
#[kani::unwind(10)]
fn c08_ids_for_value_range_w33() {
    ids_for_range::<33>();
}
