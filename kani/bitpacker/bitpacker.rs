// Kani harnesses compiled inside `tantivy_bitpacker::bitpacker`.
// C08 (and C07: the term-info store and columns use it): BitPacker::write/close into a byte
// sink, BitUnpacker::get reads every value back; exact byte length; one harness per bit width.
#![allow(dead_code)]
use super::*;

struct Fixed {
    buf: [u8; 80],
    len: usize,
}
impl io::Write for Fixed {
    fn write(&mut self, data: &[u8]) -> io::Result<usize> {
        let mut i = 0;
        while i < data.len() {
            self.buf[self.len + i] = data[i];
            i += 1;
        }
        self.len += data.len();
        Ok(data.len())
    }
    fn flush(&mut self) -> io::Result<()> {
        Ok(())
    }
}

fn rt<const BITS: u8, const N: usize>() {
    let vals: [u64; N] = kani::any();
    let mask = if BITS == 64 { !0u64 } else { (1u64 << BITS) - 1 };
    let mut out = Fixed { buf: [0; 80], len: 0 };
    let mut bp = BitPacker::new();
    let mut i = 0;
    while i < N {
        // documented precondition: the value fits the announced width
        kani::assume(vals[i] <= mask);
        match bp.write(vals[i], BITS, &mut out) {
            Ok(()) => {}
            Err(e) => {
                std::mem::forget(e);
                panic!()
            }
        }
        i += 1;
    }
    match bp.close(&mut out) {
        Ok(()) => {}
        Err(e) => {
            std::mem::forget(e);
            panic!()
        }
    }
    assert!(out.len == (N * BITS as usize + 7) / 8);
    let unp = BitUnpacker::new(BITS);
    assert!(unp.bit_width() == BITS);
    let j: u32 = kani::any();
    kani::assume((j as usize) < N);
    // both the fast path (8 readable bytes) and the slow path (tail) are exercised by j
    assert_eq!(unp.get(j, &out.buf[..out.len]), vals[j as usize]);
    kani::cover!(j as usize == N - 1, "last value (slow path at the tail)");
}

#[kani::proof]
#[kani::unwind(10)]
fn c08_bitpacker_w0() {
    rt::<0, 5>();
}
#[kani::proof]
#[kani::unwind(10)]
fn c08_bitpacker_w1() {
    rt::<1, 9>();
}
#[kani::proof]
#[kani::unwind(10)]
fn c08_bitpacker_w7() {
    rt::<7, 5>();
}
#[kani::proof]
#[kani::unwind(10)]
fn c08_bitpacker_w8() {
    rt::<8, 5>();
}
#[kani::proof]
#[kani::unwind(10)]
fn c08_bitpacker_w9() {
    rt::<9, 5>();
}
#[kani::proof]
#[kani::unwind(10)]
fn c08_bitpacker_w31() {
    rt::<31, 5>();
}
#[kani::proof]
#[kani::unwind(10)]
fn c08_bitpacker_w32() {
    rt::<32, 5>();
}
#[kani::proof]
#[kani::unwind(10)]
fn c08_bitpacker_w33() {
    rt::<33, 5>();
}
#[kani::proof]
#[kani::unwind(10)]
fn c08_bitpacker_w56() {
    rt::<56, 5>();
}
#[kani::proof]
#[kani::unwind(10)]
fn c08_bitpacker_w64() {
    rt::<64, 4>();
}

