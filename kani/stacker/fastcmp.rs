// Kani harnesses compiled inside `tantivy_stacker::fastcmp`.
// C07: the indexing hash map (`SharedArenaHashMap::mutate_or_create`, reached from the postings
// writer for every term) decides "same term" with `fast_short_slice_compare` once the 32-bit
// hashes agree. It must be byte-string equality for every pair of keys, or two terms are merged
// into one posting list.
#![allow(dead_code)]
use super::*;

const MAXLEN: usize = 40;

fn check_cmp(lo: usize, hi: usize) {
    let a: [u8; MAXLEN] = kani::any();
    let b: [u8; MAXLEN] = kani::any();
    let la: usize = kani::any();
    let lb: usize = kani::any();
    kani::assume(la >= lo && la <= hi && lb >= lo && lb <= hi);
    let got = fast_short_slice_compare(&a[..la], &b[..lb]);
    let mut eq = la == lb;
    let mut i = 0;
    while i < MAXLEN {
        if i < la && i < lb && a[i] != b[i] {
            eq = false;
        }
        i += 1;
    }
    assert_eq!(got, eq);
    kani::cover!(la == lb && la == hi && !got, "different keys of the longest length");
    kani::cover!(la == lb && la == hi && got, "equal keys of the longest length");
}

#[kani::proof]
#[kani::unwind(42)]
fn c07_fastcmp_len_0_16() {
    check_cmp(0, 16);
}

#[kani::proof]
#[kani::unwind(42)]
fn c07_fastcmp_len_17_40() {
    check_cmp(17, 40);
}
