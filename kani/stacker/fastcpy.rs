// Kani harnesses compiled inside `tantivy_stacker::fastcpy`.
// C07: term keys and posting bytes are copied into the arena with `fast_short_slice_copy`; the
// destination must equal the source for every length.
#![allow(dead_code)]
use super::*;

const MAXLEN: usize = 70;

fn check_cpy(lo: usize, hi: usize) {
    let src: [u8; MAXLEN] = kani::any();
    let mut dst: [u8; MAXLEN] = kani::any();
    let before = dst;
    let l: usize = kani::any();
    kani::assume(l >= lo && l <= hi);
    fast_short_slice_copy(&src[..l], &mut dst[..l]);
    let i: usize = kani::any();
    kani::assume(i < MAXLEN);
    if i < l {
        assert_eq!(dst[i], src[i]);
    } else {
        assert_eq!(dst[i], before[i]);
    }
    kani::cover!(l == hi);
}

#[kani::proof]
#[kani::unwind(72)]
fn c07_fastcpy_len_0_32() {
    check_cpy(0, 32);
}

#[kani::proof]
#[kani::unwind(72)]
fn c07_fastcpy_len_33_70() {
    check_cpy(33, 70);
}
