// Kani harnesses compiled inside `tantivy_common` (hook at the bottom of common/src/lib.rs).
// C03/C08: order-preserving value encodings. C07: VInt codecs. C02/C13: bit sets.
#![allow(dead_code)]
use super::*;
use crate::vint::{read_u32_vint, serialize_vint_u32, VInt};

#[kani::proof]
fn c03_i64_to_u64_order_roundtrip() {
    let (a, b): (i64, i64) = (kani::any(), kani::any());
    assert!((a < b) == (i64_to_u64(a) < i64_to_u64(b)));
    assert!(u64_to_i64(i64_to_u64(a)) == a);
    let u: u64 = kani::any();
    assert!(i64_to_u64(u64_to_i64(u)) == u);
    kani::cover!(a < 0 && b > 0);
}

#[kani::proof]
fn c03_f64_to_u64_order_roundtrip() {
    let (a, b): (f64, f64) = (kani::any(), kani::any());
    kani::assume(!a.is_nan() && !b.is_nan());
    let (ea, eb) = (f64_to_u64(a), f64_to_u64(b));
    // strictly order preserving; the two zeros are distinct codes with -0.0 first
    if a < b {
        assert!(ea < eb);
    }
    if ea < eb {
        assert!(a <= b);
    }
    if ea == eb {
        assert!(a.to_bits() == b.to_bits());
    }
    assert!(u64_to_f64(ea).to_bits() == a.to_bits());
    kani::cover!(a == f64::NEG_INFINITY && b == f64::INFINITY);
    kani::cover!(a.to_bits() != b.to_bits() && a == b, "the two zeros");
}

#[kani::proof]
#[kani::unwind(10)]
fn c07_vint_u32_roundtrip() {
    let v: u32 = kani::any();
    let mut buf = [0u8; 8];
    let n = serialize_vint_u32(v, &mut buf).len();
    assert!(n >= 1 && n <= 5);
    // minimal length
    if n < 5 {
        assert!((v as u64) < (1u64 << (7 * n)));
    }
    if n > 1 {
        assert!((v as u64) >= (1u64 << (7 * (n - 1))));
    }
    // followed by arbitrary bytes: the reader stops exactly after the VInt
    let mut stream = [0u8; 8];
    let tail: [u8; 3] = kani::any();
    let mut i = 0;
    while i < 8 {
        stream[i] = if i < n { buf[i] } else { tail[(i - n) % 3] };
        i += 1;
    }
    let mut cursor: &[u8] = &stream[..];
    let back = read_u32_vint(&mut cursor);
    assert!(back == v);
    assert!(cursor.len() == 8 - n);
    kani::cover!(n == 5);
    kani::cover!(n == 1);
}

#[kani::proof]
#[kani::unwind(12)]
fn c07_vint_u64_roundtrip() {
    let v: u64 = kani::any();
    let mut buf = [0u8; 10];
    let n = VInt(v).serialize_into(&mut buf);
    assert!(n >= 1 && n <= 10);
    if n < 10 {
        assert!(v < (1u64 << (7 * n)));
    }
    let mut cursor: &[u8] = &buf[..];
    match VInt::deserialize(&mut cursor) {
        Ok(back) => {
            assert!(back.0 == v);
            assert!(cursor.len() == 10 - n);
        }
        Err(e) => {
            std::mem::forget(e);
            panic!("a serialized VInt must deserialize");
        }
    }
    kani::cover!(n == 10);
}

#[kani::proof]
fn c02_tinyset_algebra() {
    let bits: u64 = kani::any();
    let mut t = TinySet::deserialize(bits.to_le_bytes());
    let el: u32 = kani::any();
    kani::assume(el < 64);
    assert!(t.contains(el) == ((bits >> el) & 1 == 1));
    assert!(t.len() == bits.count_ones());
    let ins = t.insert(el);
    assert!(ins.contains(el) && ins.len() == t.len() + if t.contains(el) { 0 } else { 1 });
    let rem = t.remove(el);
    assert!(!rem.contains(el) && rem.len() + if t.contains(el) { 1 } else { 0 } == t.len());
    let other: u32 = kani::any();
    kani::assume(other < 64 && other != el);
    assert!(ins.contains(other) == t.contains(other) && rem.contains(other) == t.contains(other));
    // range filters
    let from: u32 = kani::any();
    let ge = TinySet::range_greater_or_equal(from);
    assert!(ge.contains(el) == (el >= from % 64));
    let lo = TinySet::range_lower(from);
    assert!(lo.contains(el) == (el < from % 64));
    // pop_lowest returns the minimum and removes exactly it
    let before = t;
    match t.pop_lowest() {
        None => assert!(bits == 0),
        Some(l) => {
            assert!(l < 64 && before.contains(l));
            assert!(!t.contains(l) && t.len() + 1 == before.len());
            assert!(l == bits.trailing_zeros());
        }
    }
    kani::cover!(bits != 0 && el == 63);
}

fn bitset_full<const N: u32>() {
    let mut bs = BitSet::with_max_value_and_full(N);
    assert!(bs.len() == N as usize);
    assert!(bs.max_value() == N);
    let q: u32 = kani::any();
    kani::assume(q < N);
    assert!(bs.contains(q));
    // padding bits above N are clear: popcount of the buckets equals N
    let mut pop = 0u32;
    let mut b = 0u32;
    while b < (N + 63) / 64 {
        pop += bs.tinyset(b).len();
        b += 1;
    }
    assert!(pop == N);
    let d: u32 = kani::any();
    kani::assume(d < N);
    bs.remove(d);
    assert!(bs.len() == N as usize - 1 && !bs.contains(d));
    bs.remove(d);
    assert!(bs.len() == N as usize - 1);
    assert!(bs.contains(q) == (q != d));
    assert!(bs.insert(d));
    assert!(!bs.insert(d));
    assert!(bs.len() == N as usize && bs.contains(d));
    kani::cover!(d == N - 1);
    std::mem::forget(bs);
}

#[kani::proof]
#[kani::unwind(5)]
fn c02_bitset_full_63() {
    bitset_full::<63>();
}
#[kani::proof]
#[kani::unwind(5)]
fn c02_bitset_full_64() {
    bitset_full::<64>();
}
#[kani::proof]
#[kani::unwind(5)]
fn c02_bitset_full_65() {
    bitset_full::<65>();
}
#[kani::proof]
#[kani::unwind(6)]
fn c02_bitset_full_130() {
    bitset_full::<130>();
}

// ---------------------------------------------------------------------------------------------
// C03: summaries used by the mirbv obligation M03-1 (bound transformations of range queries)
// ---------------------------------------------------------------------------------------------

/// the i64 -> u64 order-preserving map is exactly `(x as u64) ^ 2^63`, and its inverse undoes it
#[kani::proof]
fn c03_i64_to_u64_definition() {
    let x: i64 = kani::any();
    assert_eq!(crate::i64_to_u64(x), (x as u64) ^ (1u64 << 63));
    assert_eq!(crate::u64_to_i64(crate::i64_to_u64(x)), x);
    kani::cover!(x < 0);
}

fn any_bound(v: i64) -> std::ops::Bound<i64> {
    let k: u8 = kani::any();
    kani::assume(k < 3);
    match k {
        0 => std::ops::Bound::Included(v),
        1 => std::ops::Bound::Excluded(v),
        _ => std::ops::Bound::Unbounded,
    }
}

/// `transform_bound_inner` / `BoundsRange::transform_inner` / `map_bound`: the closure is applied
/// to the inner value; `Existing(y)` keeps the bound kind, `NewBound(b)` replaces the bound,
/// `Unbounded` stays
#[kani::proof]
fn c03_transform_bound_inner_model() {
    use std::ops::Bound;

    use crate::bounds::{map_bound, transform_bound_inner, BoundsRange, TransformBound};
    let v: i64 = kani::any();
    let b = any_bound(v);
    let y: u64 = kani::any();
    let nb_kind: u8 = kani::any();
    let use_new: bool = kani::any();
    kani::assume(nb_kind < 3);
    let f = |x: &i64| -> TransformBound<u64> {
        assert_eq!(*x, v);
        if use_new {
            TransformBound::NewBound(match nb_kind {
                0 => Bound::Included(y),
                1 => Bound::Excluded(y),
                _ => Bound::Unbounded,
            })
        } else {
            TransformBound::Existing(y)
        }
    };
    let out = transform_bound_inner(&b, f);
    let expected = match (&b, use_new) {
        (Bound::Unbounded, _) => Bound::Unbounded,
        (_, true) => match nb_kind {
            0 => Bound::Included(y),
            1 => Bound::Excluded(y),
            _ => Bound::Unbounded,
        },
        (Bound::Included(_), false) => Bound::Included(y),
        (Bound::Excluded(_), false) => Bound::Excluded(y),
    };
    assert_eq!(out, expected);
    // the two sides of a BoundsRange are transformed independently, each by its own closure
    let r = BoundsRange::new(b, any_bound(v));
    let upper_in = r.upper_bound;
    let r2 = r.transform_inner(f, |x: &i64| TransformBound::Existing((*x as u64).wrapping_add(1)));
    assert_eq!(r2.lower_bound, expected);
    let exp_upper = match upper_in {
        Bound::Included(_) => Bound::Included((v as u64).wrapping_add(1)),
        Bound::Excluded(_) => Bound::Excluded((v as u64).wrapping_add(1)),
        Bound::Unbounded => Bound::Unbounded,
    };
    assert_eq!(r2.upper_bound, exp_upper);
    // map_bound keeps the kind
    let mb = map_bound(&b, |x: &i64| (*x as u64) ^ 7);
    let exp_mb = match b {
        Bound::Included(_) => Bound::Included((v as u64) ^ 7),
        Bound::Excluded(_) => Bound::Excluded((v as u64) ^ 7),
        Bound::Unbounded => Bound::Unbounded,
    };
    assert_eq!(mb, exp_mb);
    kani::cover!(use_new && nb_kind == 2);
}
