// Kani harnesses compiled inside `tantivy_sstable::delta` (hook at the bottom of delta.rs).
// C15: the front-coded block layer. Every (keep, add, suffix) entry DeltaWriter::write_suffix puts
// into a block comes back unchanged, in order, from DeltaReader::advance, and the block ends exactly
// after the last entry. Covers the one-byte nibble form (keep < 16 && add < 16) and the VInt escape
// (either >= 16); the escape marker 0x01 must never be produced by the nibble form for an entry a
// strictly increasing key sequence can produce (keep = 1 needs add >= 1).
#![allow(dead_code)]
use super::*;
use crate::value::{VoidValueReader, VoidValueWriter};

fn writer() -> DeltaWriter<Vec<u8>, VoidValueWriter> {
    DeltaWriter {
        block: Vec::with_capacity(40),
        write: CountingWriter::wrap(BufWriter::with_capacity(8, Vec::new())),
        value_writer: VoidValueWriter,
        stateless_buffer: Vec::new(),
        block_len: BLOCK_LEN,
    }
}

fn adv(r: &mut DeltaReader<VoidValueReader>) -> bool {
    match r.advance() {
        Ok(b) => b,
        Err(e) => {
            std::mem::forget(e);
            panic!("block written by DeltaWriter is refused by DeltaReader");
        }
    }
}

/// `HDR1` = bytes of the second entry's keep/add header (1 = nibble form, 1 + VInt lengths otherwise):
/// fixed per harness so that every offset the harness itself reads at is concrete.
fn keep_add_roundtrip<const ADD0: usize, const ADD1: usize, const HDR1: usize>(keep1: usize) {
    let (s0, s1): ([u8; ADD0], [u8; ADD1]) = (kani::any(), kani::any());
    // a later key of a block adds at least one byte (a strict prefix of its predecessor would be smaller)
    assert!(ADD1 >= 1);
    let mut w = writer();
    w.write_suffix(0, &s0[..]);
    w.write_value(&());
    w.write_suffix(keep1, &s1[..]);
    w.write_value(&());
    let block = std::mem::take(&mut w.block);
    std::mem::forget(w);
    // state of the reader after read_block() + value_reader.load() (VoidValueReader consumes 0 bytes)
    let mut r: DeltaReader<VoidValueReader> = DeltaReader {
        idx: 0,
        common_prefix_len: 0,
        suffix_range: 0..0,
        value_reader: VoidValueReader,
        block_reader: crate::block_reader::verif_kani_block_reader::loaded(block),
    };
    assert!(r.read_delta_key());
    assert!(r.common_prefix_len() == 0);
    assert!(r.suffix_range == (1..1 + ADD0));
    assert!(r.suffix().len() == ADD0);
    {
        let got0 = r.block_reader.buffer_from_to(1..1 + ADD0);
        let mut i = 0;
        while i < ADD0 {
            assert!(got0[i] == s0[i]);
            i += 1;
        }
    }
    assert!(adv(&mut r));
    assert!(r.common_prefix_len() == keep1);
    let start1 = 1 + ADD0 + HDR1;
    assert!(r.suffix_range == (start1..start1 + ADD1));
    assert!(r.suffix().len() == ADD1);
    {
        let got1 = r.block_reader.buffer_from_to(start1..start1 + ADD1);
        let mut i = 0;
        while i < ADD1 {
            assert!(got1[i] == s1[i]);
            i += 1;
        }
    }
    // the block is exhausted exactly here: nothing left to read
    assert!(!adv(&mut r));
    kani::cover!(s1[0] == 1);
    std::mem::forget(r);
}

#[kani::proof]
#[kani::unwind(5)]
fn c15_delta_roundtrip_nibble() {
    let keep1: usize = kani::any();
    kani::assume(keep1 < 16);
    keep_add_roundtrip::<2, 1, 1>(keep1);
}

#[kani::proof]
#[kani::unwind(18)]
fn c15_delta_roundtrip_nibble_max() {
    let keep1: usize = kani::any();
    kani::assume(keep1 < 16);
    keep_add_roundtrip::<15, 15, 1>(keep1);
}

#[kani::proof]
#[kani::unwind(18)]
fn c15_delta_roundtrip_escape_add() {
    let keep1: usize = kani::any();
    kani::assume(keep1 < 16);
    keep_add_roundtrip::<1, 16, 3>(keep1);
}

#[kani::proof]
#[kani::unwind(11)]
fn c15_delta_roundtrip_escape_keep() {
    let keep1: usize = kani::any();
    // keep lengths with a one-byte VInt
    kani::assume(keep1 >= 16 && keep1 < 128);
    keep_add_roundtrip::<0, 2, 3>(keep1);
}

#[kani::proof]
#[kani::unwind(11)]
fn c15_delta_roundtrip_escape_keep2() {
    let keep1: usize = kani::any();
    // keep lengths with a two-byte VInt (keys sharing up to 16 KiB with their predecessor)
    kani::assume(keep1 >= 128 && keep1 < (1 << 14));
    keep_add_roundtrip::<0, 2, 4>(keep1);
}

/// Test generated for harness `delta::verif_kani_delta::c15_delta_roundtrip_escape_keep2`
///
/// Check for `cover`: "cover condition: s1[0] == 1"

#[test]
fn kani_concrete_playback_c15_delta_roundtrip_escape_keep2_3389474276816866927() {
    let concrete_vals: Vec<Vec<u8>> = vec![
        // 16383ul
        vec![255, 63, 0, 0, 0, 0, 0, 0],
        // 1
        vec![1],
        // 127
        vec![127],
    ];
    kani::concrete_playback_run(concrete_vals, c15_delta_roundtrip_escape_keep2);
}
