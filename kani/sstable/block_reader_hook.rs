// Compiled inside `tantivy_sstable::block_reader` (hook at the bottom of block_reader.rs).
// Gives the harnesses of delta.rs the state a BlockReader is in right after `read_block()` has
// loaded the only block of a file: buffer = block payload, nothing left to read, offset 0.
#![allow(dead_code)]
use super::*;

pub(crate) fn loaded(buffer: Vec<u8>) -> BlockReader {
    BlockReader {
        buffer,
        reader: OwnedBytes::empty(),
        next_readers: Vec::new().into_iter(),
        offset: 0,
    }
}
