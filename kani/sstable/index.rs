// Kani harnesses compiled inside `tantivy_sstable::index`.
// C15: separator keys of the block index.
#![allow(dead_code)]
use super::*;

/// K15-2: for all byte strings <= 3 bytes with left < right:
///   left <= shortened < right   and   len(shortened) <= len(left)
/// which is exactly what makes "first block whose key >= k" find the right block.
#[kani::proof]
#[kani::unwind(6)]
fn c15_separator_key_contract() {
    let lb: [u8; 3] = kani::any();
    let rb: [u8; 3] = kani::any();
    let ll: usize = kani::any();
    let rl: usize = kani::any();
    kani::assume(ll <= 3 && rl <= 3);
    kani::assume(&lb[..ll] < &rb[..rl]);
    let mut left: Vec<u8> = Vec::with_capacity(4);
    let mut i = 0;
    while i < 3 {
        if i < ll {
            left.push(lb[i]);
        }
        i += 1;
    }
    find_shorter_str_in_between(&mut left, &rb[..rl]);
    assert!(&lb[..ll] <= &left[..]);
    assert!(&left[..] < &rb[..rl]);
    assert!(left.len() <= ll);
    kani::cover!(left.len() < ll, "the key was really shortened");
    std::mem::forget(left);
}

/// Order enforcement across a block boundary: `Writer::insert_key` does not compare the first key
/// of a block with its predecessor itself; the comparison happens here, when the previous block's
/// last key is shortened against the next key. A pair that is not strictly increasing
/// (equal, smaller, or a strict prefix the wrong way round) must be refused - the internal
/// `assert!` fires (listed as the expected panic of this obligation) and control never comes
/// back. Reaching the end of this harness means an unordered pair was accepted.
#[kani::proof]
#[kani::unwind(6)]
fn c15_separator_refuses_unordered_pair() {
    let lb: [u8; 3] = kani::any();
    let rb: [u8; 3] = kani::any();
    let ll: usize = kani::any();
    let rl: usize = kani::any();
    kani::assume(ll <= 3 && rl <= 3);
    kani::assume(&lb[..ll] >= &rb[..rl]);
    let mut left: Vec<u8> = Vec::with_capacity(4);
    let mut i = 0;
    while i < 3 {
        if i < ll {
            left.push(lb[i]);
        }
        i += 1;
    }
    kani::cover!(ll == rl && ll == 2, "two keys of equal length");
    find_shorter_str_in_between(&mut left, &rb[..rl]);
    std::mem::forget(left);
    panic!("an unordered pair of keys was accepted at a block boundary");
}
