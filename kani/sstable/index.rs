// Kani harnesses compiled inside `tantivy_sstable::index`.
// C15: separator keys of the block index.
#![allow(dead_code)]
use super::*;

/// K15-2: for all byte strings <= 3 bytes with left < right:
///   left <= shortened < right   and   len(shortened) <= len(left)
/// which is exactly what makes "first block whose key >= k" find the right block.
#[kani::proof]
#[kani::unwind(6)]
fn c15_separator_key_contract() {
    let lb: [u8; 3] = kani::any();
    let rb: [u8; 3] = kani::any();
    let ll: usize = kani::any();
    let rl: usize = kani::any();
    kani::assume(ll <= 3 && rl <= 3);
    kani::assume(&lb[..ll] < &rb[..rl]);
    let mut left: Vec<u8> = Vec::with_capacity(4);
    let mut i = 0;
    while i < 3 {
        if i < ll {
            left.push(lb[i]);
        }
        i += 1;
    }
    find_shorter_str_in_between(&mut left, &rb[..rl]);
    assert!(&lb[..ll] <= &left[..]);
    assert!(&left[..] < &rb[..rl]);
    assert!(left.len() <= ll);
    kani::cover!(left.len() < ll, "the key was really shortened");
    std::mem::forget(left);
}
