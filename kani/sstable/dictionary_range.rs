// Kani harnesses compiled inside `tantivy_sstable::dictionary` (private fields of Dictionary).
// C15: bounded range streaming. `file_slice_for_range` picks the blocks a range stream will
// read; it must cover every block that can hold one of the first `limit` keys of the range
// (it may return more). The dictionary is written down directly: a v2 block index of 3 blocks
// with symbolic 1-byte separator keys, symbolic byte ranges and first ordinals; the file handle
// records the byte range it is asked for.
#![allow(dead_code)]
use std::ops::{Bound, Range};
use std::sync::atomic::{AtomicUsize, Ordering};
use std::sync::Arc;

use common::file_slice::FileHandle;
use common::{HasLen, OwnedBytes};

use super::*;
use crate::index::v2;
use crate::BlockAddr;

static ASKED_LO: AtomicUsize = AtomicUsize::new(usize::MAX);
static ASKED_HI: AtomicUsize = AtomicUsize::new(usize::MAX);

#[derive(Debug)]
struct Probe;
impl HasLen for Probe {
    fn len(&self) -> usize {
        3000
    }
}
impl FileHandle for Probe {
    fn read_bytes(&self, range: Range<usize>) -> std::io::Result<OwnedBytes> {
        ASKED_LO.store(range.start, Ordering::Relaxed);
        ASKED_HI.store(range.end, Ordering::Relaxed);
        Ok(OwnedBytes::empty())
    }
}

fn as_slice(b: &Bound<[u8; 1]>) -> Bound<&[u8]> {
    match b {
        Bound::Included(k) => Bound::Included(&k[..]),
        Bound::Excluded(k) => Bound::Excluded(&k[..]),
        Bound::Unbounded => Bound::Unbounded,
    }
}

fn any_bound(k: u8, kind: u8) -> Bound<[u8; 1]> {
    match kind {
        0 => Bound::Included([k]),
        1 => Bound::Excluded([k]),
        _ => Bound::Unbounded,
    }
}

#[kani::proof]
#[kani::unwind(5)]
fn c15_file_slice_for_range_covers_needed_blocks() {
    // block index: last keys k0 < k1 < k2, byte ranges [0,e0) [e0,e1) [e1,e2), first ordinals 0 < f1 < f2 < total
    let (k0, k1, k2): (u8, u8, u8) = (kani::any(), kani::any(), kani::any());
    kani::assume(k0 < k1 && k1 < k2);
    let (e0, e1, e2): (usize, usize, usize) = (kani::any(), kani::any(), kani::any());
    kani::assume(0 < e0 && e0 < e1 && e1 < e2 && e2 <= 3000);
    let (f1, f2, total): (u64, u64, u64) = (kani::any(), kani::any(), kani::any());
    kani::assume(0 < f1 && f1 < f2 && f2 < total && total < 1_000_000);
    let ends = [e0, e1, e2];
    let starts = [0usize, e0, e1];
    let firsts = [0u64, f1, f2, total];
    let keys = [k0, k1, k2];
    let mk = |i: usize| v2::BlockMeta {
        last_key_or_greater: vec![keys[i]],
        block_addr: BlockAddr { first_ordinal: firsts[i], byte_range: starts[i]..ends[i] },
    };
    let index = v2::SSTableIndex { blocks: vec![mk(0), mk(1), mk(2)] };
    let dict: Dictionary<crate::VoidSSTable> = Dictionary {
        sstable_slice: FileSlice::new_with_num_bytes(Arc::new(Probe), 3000),
        sstable_index: SSTableIndex::V2(index),
        num_bytes: ByteCount::from(3000u64),
        num_terms: total,
        phantom_data: std::marker::PhantomData,
    };
    // the query
    let (lk, uk): (u8, u8) = (kani::any(), kani::any());
    let (lkind, ukind): (u8, u8) = (kani::any(), kani::any());
    kani::assume(lkind < 3 && ukind < 3);
    let has_limit: bool = kani::any();
    let n: u64 = kani::any();
    kani::assume(n >= 1 && n < 1_000_000);
    // like a sorted map, an inverted range is a caller error (BTreeMap::range panics on it)
    kani::assume(lkind == 2 || ukind == 2 || lk <= uk);
    let lower = any_bound(lk, lkind);
    let upper = any_bound(uk, ukind);
    let slice = dict.file_slice_for_range((as_slice(&lower), as_slice(&upper)), if has_limit { Some(n) } else { None });
    let got_len = slice.len();
    let _ = slice.read_bytes();
    let (got_lo, got_hi) = (ASKED_LO.load(Ordering::Relaxed), ASKED_HI.load(Ordering::Relaxed));
    // oracle -------------------------------------------------------------------------------
    // block that would hold key k: first block whose separator key is >= k
    let block_of_key = |k: u8| -> Option<usize> {
        if k <= k0 { Some(0) } else if k <= k1 { Some(1) } else if k <= k2 { Some(2) } else { None }
    };
    let block_of_ord = |o: u64| -> usize {
        if o < f1 { 0 } else if o < f2 { 1 } else { 2 }
    };
    let lo_block = match lkind { 2 => Some(0), _ => block_of_key(lk) };
    if let Some(lo_block) = lo_block {
        // keys above the last separator do not exist: an upper bound there means "to the end"
        let hi_by_key = match ukind { 2 => 2, _ => block_of_key(uk).unwrap_or(2) };
        // the first matching key sits at an ordinal o with firsts[lo_block] <= o <= firsts[lo_block + 1]
        // (the upper end: an exclusive lower bound equal to the block's last key); the n-th match
        // is at o + n - 1 at the latest
        // (an unbounded range starts at ordinal 0 exactly)
        let hi_by_limit = if !has_limit {
            2
        } else if lkind == 2 {
            block_of_ord(n - 1)
        } else {
            block_of_ord(firsts[lo_block + 1] + n - 1)
        };
        let need_hi = if hi_by_key < hi_by_limit { hi_by_key } else { hi_by_limit };
        if need_hi >= lo_block && got_len > 0 {
            assert!(got_lo <= starts[lo_block]);
            assert!(got_hi >= ends[need_hi]);
        }
        if need_hi >= lo_block {
            // a non-empty need must not be answered by an empty slice
            assert!(got_len > 0);
        }
    }
    kani::cover!(has_limit && lkind == 0 && lo_block == Some(0) && got_hi == e1, "limit cuts the slice after the second block");
    std::mem::forget(dict);
}
