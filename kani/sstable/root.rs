// Kani harnesses compiled inside `tantivy_sstable` (hook at the bottom of sstable/src/lib.rs).
// C15: sstable VInt, common prefix, order enforcement of Writer::insert_key.
#![allow(dead_code)]
use super::*;

#[kani::proof]
#[kani::unwind(12)]
fn c15_sstable_vint_roundtrip() {
    let v: u64 = kani::any();
    let mut buf = [0u8; 12];
    let n = vint::serialize(v, &mut buf[..10]);
    assert!(n >= 1 && n <= 10);
    // trailing garbage after the integer is not consumed
    buf[10] = kani::any();
    buf[11] = kani::any();
    let (consumed, back) = vint::deserialize_read(&buf[..]);
    assert!(consumed == n && back == v);
    kani::cover!(n == 10);
}

#[kani::proof]
#[kani::unwind(6)]
fn c15_common_prefix_len() {
    let (a, b): ([u8; 3], [u8; 3]) = (kani::any(), kani::any());
    let (la, lb): (usize, usize) = (kani::any(), kani::any());
    kani::assume(la <= 3 && lb <= 3);
    let n = common_prefix_len(&a[..la], &b[..lb]);
    assert!(n <= la && n <= lb);
    let mut i = 0;
    while i < 3 {
        if i < n {
            assert!(a[i] == b[i]);
        }
        i += 1;
    }
    if n < la && n < lb {
        assert!(a[n] != b[n]);
    }
    kani::cover!(n == 2 && la == 3);
}

/// K15-4: if `insert_key(k2)` returns after `insert(k1)`, then k1 < k2 (strictly): keys that
/// are out of order or repeated are never silently accepted. Rejection = the panic of
/// insert_key's own assertion / index check (registered as expected panics of this obligation).
#[kani::proof]
#[kani::unwind(6)]
#[kani::stub(alloc::string::String::from_utf8_lossy, stub_lossy)]
fn c15_insert_key_enforces_order() {
    let (a, b): ([u8; 2], [u8; 2]) = (kani::any(), kani::any());
    let (la, lb): (usize, usize) = (kani::any(), kani::any());
    kani::assume(la <= 2 && lb <= 2);
    let mut w: Writer<Vec<u8>, value::VoidValueWriter> = Writer::new(Vec::with_capacity(64));
    match w.insert(&a[..la], &()) {
        Ok(()) => {}
        Err(e) => {
            std::mem::forget(e);
            panic!("first key must be accepted");
        }
    }
    match w.insert_key(&b[..lb]) {
        Ok(()) => {
            assert!(&a[..la] < &b[..lb], "accepted key is not strictly greater than the previous key");
            assert!(w.last_inserted_key() == &b[..lb]);
        }
        Err(e) => {
            std::mem::forget(e);
        }
    }
    kani::cover!(la == 2 && lb == 2 && a[0] == b[0] && a[1] < b[1]);
    std::mem::forget(w);
}

fn stub_lossy(_v: &[u8]) -> std::borrow::Cow<'_, str> {
    std::borrow::Cow::Borrowed("")
}

