// Kani harnesses compiled inside `ownedbytes`.
// C05: OwnedBytes views are stable: slicing, splitting and advancing compose by offsets and
// never change the bytes a previously obtained view shows.
#![allow(dead_code)]
use super::*;

#[kani::proof]
#[kani::unwind(10)]
fn c05_ownedbytes_views_compose() {
    let data: [u8; 8] = kani::any();
    let mut v: Vec<u8> = Vec::with_capacity(8);
    v.extend_from_slice(&data);
    let ob = OwnedBytes::new(v);
    assert!(ob.len() == 8);
    let (a, b): (usize, usize) = (kani::any(), kani::any());
    kani::assume(a <= b && b <= 8);
    let s = ob.slice(a..b);
    assert!(s.len() == b - a);
    let k: usize = kani::any();
    kani::assume(k < b - a);
    assert!(s.as_slice()[k] == data[a + k]);
    // split at an arbitrary point of the slice
    let m: usize = kani::any();
    kani::assume(m <= b - a);
    let (l, r) = s.clone().split(m);
    assert!(l.len() == m && r.len() == b - a - m);
    if k < m {
        assert!(l.as_slice()[k] == data[a + k]);
    } else {
        assert!(r.as_slice()[k - m] == data[a + k]);
    }
    // advancing a clone does not disturb the original view
    let mut adv = s.clone();
    adv.advance(m);
    assert!(adv.len() == b - a - m);
    assert!(s.as_slice()[k] == data[a + k]);
    assert!(ob.as_slice()[a + k] == data[a + k]);
    kani::cover!(a > 0 && b < 8 && m > 0 && m < b - a);
    std::mem::forget(ob);
    std::mem::forget(s);
    std::mem::forget(l);
    std::mem::forget(r);
    std::mem::forget(adv);
}
