"""The obligations. Timeouts are ~3x the time measured on the 16-core sandbox (quick tier);
the thorough tier multiplies them by obligations.THOROUGH_TIMEOUT_FACTOR."""
from obligations import K, M

ARR = ("leaves are `Arr`: <= 3 symbolic strictly increasing doc ids below the stated maximum, using the "
       "trait's default seek/seek_danger/fill_buffer/fill_bitset_block")
SEEK_PRE = "seek target t satisfies doc() <= t <= TERMINATED (DocSet::seek's documented precondition)"
GO_FIRST = [("go_to_first_doc", 9)]

# ---------------------------------------------------------------------------------------------
# C13  every DocSet is one sorted sequence under any mix of advance and seek
# ---------------------------------------------------------------------------------------------
def _c13(oid, harness, fns, bounds, tiers="qt", timeout=300, **kw):
    K("C13", oid, harness, tiers=tiers, timeout=timeout, functions=fns, bounds=bounds,
      assumes=[ARR, SEEK_PRE], **kw)

_c13("K13-inter2-p2", "c13_intersection2_prog2",
     ["Intersection::<ConstScorer<Arr>,ConstScorer<Arr>>::{new,advance,seek,doc,score}", "go_to_first_doc", "DocSet::seek (default)", "DocSet::seek_danger (default)"],
     "2 leaves x <=3 docs, ids < 8192, every program of 2 calls over {advance, seek(t)}; unwind 5, go_to_first_doc 9",
     title="Intersection (2-way) = sorted A∩B under any 2-call program; score = sum", unwindset=GO_FIRST, timeout=900)
_c13("K13-inter2-p3", "c13_intersection2_prog3",
     ["Intersection::{new,advance,seek,doc,score}", "go_to_first_doc"],
     "2 leaves x <=3 docs, ids < 300, programs of 3 calls; unwind 5, go_to_first_doc 9",
     title="Intersection (2-way), 3-call programs", tiers="t", unwindset=GO_FIRST, timeout=900)
_c13("K13-inter3-p2", "c13_intersection3_prog2",
     ["Intersection::{new,advance,seek}", "go_to_first_doc", "others: Vec<ConstScorer<Arr>>"],
     "3 leaves (3,3,2 docs), ids < 300, programs of 2 calls; unwind 5",
     title="Intersection with `others` = A∩B∩C", tiers="t", unwindset=GO_FIRST, timeout=900)
_c13("K13-excl1-p2", "c13_exclude1_prog2", ["Exclude::<ConstScorer<Arr>,ConstScorer<Arr>>::{new,advance,seek,doc,score}", "ExclusionSet::contains"],
     "2 leaves x <=3 docs, ids < 300, programs of 2 calls; unwind 5", title="Exclude = A∖B", timeout=300)
_c13("K13-excl1-p3", "c13_exclude1_prog3", ["Exclude::{new,advance,seek}"], "as above, 3 calls", title="Exclude, 3-call programs", tiers="t", timeout=600)
_c13("K13-excl2-p2", "c13_exclude2_prog2", ["Exclude::<_, Vec<_>>::{new,advance,seek}", "<Vec<T> as ExclusionSet>::contains"],
     "3 leaves x <=3 docs, ids < 300, programs of 2 calls; unwind 5", title="Exclude with several excluders = A∖(B∪C)", tiers="t", timeout=900)
_c13("K13-sunion-p2", "c13_simple_union_prog2", ["SimpleUnion::<Arr>::{build,advance,seek,doc,advance_to_next}"],
     "2 leaves x <=3 docs, ids < 300, programs of 2 calls; unwind 5", title="SimpleUnion = A∪B", timeout=900)
_c13("K13-sunion-p3", "c13_simple_union_prog3", ["SimpleUnion::{build,advance,seek}"], "as above, 3 calls", title="SimpleUnion, 3-call programs", tiers="t", timeout=900)
_c13("K13-reqopt-p2", "c13_reqopt_prog2", ["RequiredOptionalScorer::<_,_,SumCombiner>::{advance,seek,doc,score}"],
     "2 leaves x <=3 docs, programs of 2 calls over {advance, seek(t), seek_danger(t)} with optional score reads in between; unwind 5",
     title="RequiredOptional = required set; score = req (+ opt when it matches), cached value stable", timeout=120)
_c13("K13-reqopt-p3", "c13_reqopt_prog3", ["RequiredOptionalScorer::{advance,seek,doc,score}"], "as above, 3 calls", title="RequiredOptional, 3-call programs", timeout=180)
_c13("K13-wrappers-p3", "c13_const_boost_wrappers_prog3", ["BoostScorer::{advance,seek,fill_buffer,count_including_deleted,score}", "ConstScorer::{...}", "DocSet::{fill_buffer,count_including_deleted} (defaults)"],
     "1 leaf x <=3 docs, programs of 3 calls over {advance, seek, fill_buffer, count}; boost any u8; unwind 8",
     title="Boost/Const wrappers are transparent; score = const*boost", timeout=180)
_c13("K13-all-p2", "c13_all_scorer_prog2", ["AllScorer::{new,advance,seek,fill_buffer,doc,score}"],
     "1 <= max_doc <= 200, programs of 2 calls over {advance, seek, fill_buffer}; unwind 66",
     title="AllScorer enumerates 0..max_doc", timeout=400)
_c13("K13-empty", "c13_empty_scorer", ["EmptyScorer::{advance,seek,doc,count_including_deleted}"], "no loops", title="EmptyScorer stays TERMINATED", timeout=60)
_c13("K13-bitset-p2", "c13_bitset_docset_prog2", ["BitSetDocSet::{from,advance,seek,doc}", "BitSet::{with_max_value,insert,tinyset,first_non_empty_bucket}", "TinySet::{pop_lowest,range_greater_or_equal,intersect}"],
     "max_value = 130 (3 words, concrete), <=3 docs, programs of 2 calls; unwind 6", title="BitSetDocSet = members in order", timeout=600)
_c13("K13-bitset-p3", "c13_bitset_docset_prog3", ["BitSetDocSet::{from,advance,seek,doc}"], "as above, 3 calls", title="BitSetDocSet, 3-call programs", tiers="t", timeout=900)
_c13("K13-bitsetunion-p2", "c13_bitset_posting_union_prog2", ["BitSetPostingUnion::{build,advance,seek,doc}"],
     "2 leaves x <=2 docs, ids < 130", title="BitSetPostingUnion follows its bitset", tiers="t", timeout=900)
_c13("K13-inter2-fillbuf", "c13_intersection2_fillbuf", ["Intersection::{new}", "DocSet::fill_buffer (default)"], "one fill_buffer call from the first document",
     title="fill_buffer on Intersection yields the remaining sequence", tiers="t", unwindset=GO_FIRST, timeout=900)
_c13("K13-inter2-bitset", "c13_intersection2_bitset_block", ["Intersection::{new}", "DocSet::fill_bitset_block (default)"], "one fill_bitset_block(min_doc >= doc) call",
     title="fill_bitset_block on Intersection = window membership + next doc", tiers="t", unwindset=GO_FIRST, timeout=900)
_c13("K13-excl1-fillbuf", "c13_exclude1_fillbuf", ["Exclude::{new,advance}", "DocSet::fill_buffer (default)"], "one call", title="fill_buffer on Exclude", tiers="t", timeout=900)
_c13("K13-excl1-count", "c13_exclude1_count", ["Exclude::{new,advance}", "DocSet::count_including_deleted (default)"], "one call", title="count_including_deleted on Exclude", tiers="t", timeout=900)
_c13("K13-sunion-count", "c13_simple_union_count", ["SimpleUnion::{build,count_including_deleted,advance_to_next}"], "one call", title="SimpleUnion::count_including_deleted = |A∪B|", tiers="t", timeout=900)
_c13("K13-sunion-bitset", "c13_simple_union_bitset_block", ["SimpleUnion::{build,seek,advance}", "DocSet::fill_bitset_block (default)"], "one call", title="fill_bitset_block on SimpleUnion", tiers="t", timeout=900)
_c13("K13-phraseprefix-sd", "c13_phrase_prefix_single_seek_danger", ["PhrasePrefixScorer::<ArrPostings>::{new,seek_danger,matches_prefix,doc,phrase_count}", "PhraseKind::{seek,advance,get_intersection}", "phrase_query::intersection_count"],
     "term + one prefix expansion over array postings: <= 2 docs per list, 1 symbolic position per doc; one seek_danger(t) call (+ recovery call)", tiers="qt", timeout=2400, mem=30,
     title="PhrasePrefixScorer (single-prefix kind): seek_danger(t) = Found iff t is a match, lower bound otherwise", unwindset=GO_FIRST + [("binary_search", 10)])
_c13("K13-phraseprefix-sa", "c13_phrase_prefix_single_seek_adv", ["PhrasePrefixScorer::{new,advance,seek}"], "as above, one advance / seek(t) call", tiers="t", timeout=2400, mem=30,
     title="PhrasePrefixScorer: advance / seek observe the sorted sequence of phrase-prefix matches", unwindset=GO_FIRST + [("binary_search", 10)])
_c13("K13-phrase-sa", "c13_phrase_scorer_seek_adv", ["PhraseScorer::<ArrPostings>::{new,advance,seek,phrase_match,compute_phrase_match}", "Intersection<PostingsWithOffset<_>>", "phrase_scorer::intersection_exists"],
     "two-term phrase over array postings (<= 2 docs per list, 1 position per doc), slop 0, one advance / seek(t) call", tiers="t", timeout=2400, mem=30,
     title="PhraseScorer: advance / seek observe the sorted sequence of documents where b follows a", unwindset=GO_FIRST + [("binary_search", 10)])
_c13("K13-phrase-sd", "c13_phrase_scorer_seek_danger", ["PhraseScorer::{new,seek_danger,phrase_match}"], "as above, one seek_danger(t) call", tiers="t", timeout=2400, mem=30,
     title="PhraseScorer: seek_danger(t) = Found iff t is a phrase match, lower bound otherwise", unwindset=GO_FIRST + [("binary_search", 10)])
BU_US = [(r"fill_bufferBa_\.0$", 66), (r"fill_bufferBa_\.1$", 6), ("advance_buffered", 66), ("state_after_seek", 130), ("tinyset_of", 66)]
_c13("K13-bunion-fills-link", "c13_buffered_union_two_fills_link_ids", ["BufferedUnionScorer::<ConstScorer<Arr>, DoNothingCombiner>::{fill_buffer,refill,advance_buffered}", "buffered_union::refill", "unordered_drain_filter", "TinySet::{pop_lowest,insert_mut}"],
     "fixed reachable pre-state (A = {0} ∪ [3968,4096) after build + seek(3968): doc 3968, bucket 62), B = {5000, b1}, b1 symbolic in (5000, 12000); two fill_buffer calls crossing the window refill",
     tiers="qt", timeout=900, mem=14, title="BufferedUnionScorer: two fill_buffer calls hand out 3968..4095 in order, cross the refill onto b0, and leave exactly b1 pending (bits, bucket, window start, remaining scorers = pre-state of K13-bunion-adv-*)",
     unwindset=BU_US)
_c13("K13-bunion-adv-near", "c13_buffered_union_advance_from_s1_near_one_call", ["BufferedUnionScorer::{advance,advance_buffered,refill}"], "pre-state S1(b1) written down directly (guaranteed by K13-bunion-fills-link), b1 buffered in the window of b0; one advance",
     tiers="t", timeout=1800, mem=20, title="BufferedUnionScorer: from the refilled window, advance lands on b1 (buffered)", unwindset=BU_US)
_c13("K13-bunion-adv-far", "c13_buffered_union_advance_from_s1_far_one_call", ["BufferedUnionScorer::{advance,advance_buffered,refill}"], "pre-state S1(b1), b1 beyond the window of b0 (one more refill); one advance",
     tiers="t", timeout=1800, mem=20, title="BufferedUnionScorer: from the refilled window, advance refills again and lands on b1", unwindset=BU_US)
_c13("K13-bunion-adv2-near", "c13_buffered_union_advance_from_s1_near", ["BufferedUnionScorer::{advance,advance_buffered,refill}"], "as K13-bunion-adv-near, then a second advance reports the end",
     tiers="t", timeout=2400, mem=40, title="BufferedUnionScorer: b1 then the end (buffered case)", unwindset=BU_US)
_c13("K13-bunion-adv2-far", "c13_buffered_union_advance_from_s1_far", ["BufferedUnionScorer::{advance,advance_buffered,refill}"], "as K13-bunion-adv-far, then a second advance reports the end",
     tiers="t", timeout=2400, mem=40, title="BufferedUnionScorer: b1 then the end (refill case)", unwindset=BU_US)
_c13("K13-disj-p2", "c13_disjunction_msm2_prog2", ["Disjunction::<ConstScorer<Arr>,SumCombiner>::{new,advance,doc,score}", "BinaryHeap<ScorerWrapper<_>>", "DocSet::seek (default)"],
     "3 leaves x <=2 docs, minimum_matches_required = 2, programs of 2 calls; unwind 5 + swap loops 20",
     title="Disjunction(min-should-match 2) = docs in >=2 leaves; score = sum of matching", tiers="t", unwindset=[("swap_nonoverlapping", 20)], timeout=900)

# ---------------------------------------------------------------------------------------------
# C03  queries match exactly the documents their logical meaning prescribes (kernel level)
# ---------------------------------------------------------------------------------------------
K("C03", "K03-phrase-kernels", "c03_phrase_exists_count_slop", timeout=240,
  title="phrase position kernels = quadratic definition (exists / count / exists-with-slop)",
  functions=["phrase_scorer::intersection_exists", "intersection_count", "intersection_exists_with_slop"],
  bounds="sorted position lists <= 3 x 3, full u32 positions and slop; unwind 8")
K("C03", "K03-phrase-inplace", "c03_phrase_intersection_inplace_2x2", timeout=600,
  title="in-place position intersection keeps exactly the common positions in order",
  functions=["phrase_scorer::intersection"], bounds="2 x 2 positions (concrete lengths); unwind 6")
K("C03", "K03-phrase-inplace-3", "c03_phrase_intersection_inplace_3x3", timeout=300, title="in-place position intersection, 3 x 3", functions=["phrase_scorer::intersection"], bounds="<= 3 x 3 positions")
K("C03", "K03-phrase-slop-count", "c03_phrase_count_with_slop_2x2", timeout=600,
  title="count_with_slop > 0 iff some pair is within the slop; slop 0 = exact count",
  functions=["phrase_scorer::intersection_count_with_slop"], bounds="2 x 2 positions (concrete lengths); unwind 6")
K("C03", "K03-phrase-slop-count-3", "c03_phrase_count_with_slop_3x3", timeout=300, title="count_with_slop, 3 x 3", functions=["phrase_scorer::intersection_count_with_slop"], bounds="<= 3 x 3 positions")
K("C03", "K03-should-all-ids", "c03_should_union_with_removed_all_scorer_matches_all_ids", timeout=300,
  title="SHOULD-only disjunction with a removed match-all clause (scoring off) still enumerates every id 0..max_doc, independent of the live-doc count",
  functions=["boolean_weight::effective_should_scorer_for_union", "into_box_scorer", "AllScorer::{new,seek,advance}"], bounds="max_doc <= 1000, num_docs <= max_doc, 1..3 removed clauses")
K("C03", "K03-should-identity", "c03_should_union_without_removed_all_scorer_is_identity", timeout=300,
  title="without a removed match-all clause the should scorer is passed through", functions=["boolean_weight::effective_should_scorer_for_union"], bounds="")
K("C03", "K03-map-i64", "c03_i64_to_u64_definition", crate="tantivy-common", timeout=60, title="summary of M03-1: common::i64_to_u64(x) = (x as u64) ^ 2^63 and u64_to_i64 inverts it",
  functions=["common::i64_to_u64", "common::u64_to_i64"], bounds="all i64")
K("C03", "K03-map-columnar", "c03_monotonic_map_definitions", crate="tantivy-columnar", timeout=60, title="summary of M03-1: MonotonicallyMappableToU64 for i64 is that map, for u64 the identity",
  functions=["<i64 as MonotonicallyMappableToU64>::{to_u64,from_u64}", "<u64 as MonotonicallyMappableToU64>::{to_u64,from_u64}"], bounds="all i64 / u64")
K("C03", "K03-transform-bound", "c03_transform_bound_inner_model", crate="tantivy-common", timeout=120, title="assumption of M03-1: transform_bound_inner / BoundsRange::transform_inner / map_bound apply the closure to the inner value, Existing keeps the bound kind, NewBound replaces the bound, Unbounded stays; the two sides are independent",
  functions=["common::bounds::{transform_bound_inner,map_bound}", "BoundsRange::transform_inner"], bounds="all bounds over i64, every closure outcome")
K("C03", "K03-bound-to-range", "c03_bound_to_value_range_u64", timeout=120, title="bound_to_value_range: a column value within [min, max] lies in the returned inclusive range iff it satisfies both bounds; None only when nothing can match",
  functions=["range_query_fastfield::bound_to_value_range::<u64>"], bounds="all bounds / min / max / values over u64")
K("C03", "K03-f64-bounds-i64-lower", "c03_f64_bounds_on_i64_column_lower", timeout=300, title="f64 literal as lower bound on an i64 column: a value satisfies the transformed bound iff it satisfies the written one numerically",
  functions=["range_query_fastfield::transform_from_f64_bounds::<i64>", "BoundsRange::transform_inner"], bounds="finite literals and column values of magnitude <= 2^53 (exact in f64)")
K("C03", "K03-f64-bounds-i64-upper", "c03_f64_bounds_on_i64_column_upper", timeout=300, title="f64 literal as upper bound on an i64 column",
  functions=["range_query_fastfield::transform_from_f64_bounds::<i64>"], bounds="magnitude <= 2^53")
K("C03", "K03-f64-bounds-u64", "c03_f64_bounds_on_u64_column", timeout=300, title="f64 literals (both sides) on a u64 column",
  functions=["range_query_fastfield::transform_from_f64_bounds::<u64>"], bounds="magnitude <= 2^53")
K("C03", "K03-ip-range", "c03_bound_range_inclusive_ip", timeout=300, title="IP range bounds: an address lies in the scanned range iff it satisfies both bounds; no arithmetic overflow at the extreme addresses",
  functions=["range_query_fastfield::bound_range_inclusive_ip"], bounds="all 128-bit addresses and bounds")
K("C03", "K03-i64-order", "c03_i64_to_u64_order_roundtrip", crate="tantivy-common", timeout=60,
  title="i64 <-> u64 mapping is strictly order preserving and bijective",
  functions=["common::i64_to_u64", "common::u64_to_i64"], bounds="all 2^64 x 2^64 pairs", checks="full")
K("C03", "K03-f64-order", "c03_f64_to_u64_order_roundtrip", crate="tantivy-common", timeout=60,
  title="f64 <-> u64 mapping is order preserving on non-NaN values (incl. +-0, infinities) and bit-exact back",
  functions=["common::f64_to_u64", "common::u64_to_f64"], bounds="all non-NaN pairs", assumes=["inputs are not NaN"], checks="full")
K("C03", "K03-inter4-count", "c03_intersection4_count_dense", timeout=1200, mem=20,
  unwindset=GO_FIRST + [("and_blocks_and_return_is_empty", 18), (r"count_including_deleted_denseB9_\.0$", 4), (r"count_including_deleted_denseB9_\.1$", 18), (r"count_including_deleted_denseB9_\.2$", 3)],
  title="4-way Intersection::count_including_deleted (dense block path, two `others`) = |A∩B∩C∩D|: every clause filters",
  functions=["Intersection::{new,count_including_deleted,count_including_deleted_dense}", "and_blocks_and_return_is_empty", "DocSet::fill_bitset_block (default)"],
  bounds="4 leaves x 2 docs, ids < 32, 32-document segment (dense path)", assumes=[ARR])
K("C03", "K03-inter-count", "c03_intersection_count", tiers="t", timeout=900,
  unwindset=GO_FIRST + [("and_blocks_and_return_is_empty", 18), (r"count_including_deleted_denseB9_\.0$", 3), (r"count_including_deleted_denseB9_\.1$", 18), (r"count_including_deleted_denseB9_\.2$", 6)],
  title="Intersection::count_including_deleted (sparse and dense block paths) = |A∩B|",
  functions=["Intersection::count_including_deleted{,_sparse,_dense}", "DocSet::fill_bitset_block (default)"],
  bounds="2 leaves x <=3 docs, ids < 4000, segment size 1..4000", assumes=[ARR])
for _g in (1, 2, 3, 10, 1000):
    K("C03", "K03-range-gcd%d" % _g, "c08_range_transform_gcd%d" % _g, crate="tantivy-columnar", timeout=300 if _g == 1000 else 120, group="range-gcd",
      title="fast-field range push-down: value in range <=> packed value in transformed range (gcd %d)" % _g,
      functions=["bitpacked::transform_range_before_linear_transformation", "bitpacked::div_ceil"],
      bounds="min_value, range bounds full u64; packed <= 2^40; gcd = %d (concrete per harness)" % _g,
      assumes=["min_value + gcd*packed does not overflow (a value the column can hold)"])

# ---------------------------------------------------------------------------------------------
# C06  top-K
# ---------------------------------------------------------------------------------------------
def _c06(oid, harness, title, fns, bounds, **kw):
    K("C06", oid, harness, title=title, functions=fns, bounds=bounds,
      assumes=["documents are pushed in ascending address order (documented precondition of TopNComputer / TopNHeap)"], **kw)
_c06("K06-topn-k1", "c06_topn_k1_m4_natural", "TopNComputer K=1, 4 pushes = exhaustive ranking incl. ties", ["TopNComputer::{new_with_comparator,push,append_doc,truncate_top_n,into_sorted_vec}", "compare_for_top_k"], "u8 keys (ties abound), NaturalComparator; unwind 7", timeout=120, group="topn")
_c06("K06-topn-k2", "c06_topn_k2_m5_natural", "TopNComputer K=2, 5 pushes", ["TopNComputer::*"], "u8 keys; unwind 8", timeout=180, group="topn")
_c06("K06-topn-k2-rev", "c06_topn_k2_m5_reverse", "TopNComputer K=2, ReverseComparator (ascending sort)", ["TopNComputer::*", "ReverseComparator::compare"], "u8 keys; unwind 8", timeout=180, group="topn")
_c06("K06-topn-k2-m7", "c06_topn_k2_m7_natural", "TopNComputer K=2, 7 pushes (two truncations)", ["TopNComputer::*"], "u8 keys; unwind 10", timeout=3600, tiers="t", mem=30)
_c06("K06-topn-k3-m7", "c06_topn_k3_m7_natural", "TopNComputer K=3, 7 pushes (one truncation)", ["TopNComputer::*"], "u8 keys; unwind 10", timeout=300)
_c06("K06-topn-k3-m9", "c06_topn_k3_m9_reverse", "TopNComputer K=3, 9 pushes, ReverseComparator", ["TopNComputer::*"], "u8 keys; unwind 12", timeout=3600, tiers="t", mem=30)
_c06("K06-threshold", "c06_topn_threshold_sound_k2_m6", "threshold soundness: a dropped push is never in the top K; threshold = key of a pushed item with > K items >= it", ["TopNComputer::push", "truncate_top_n"], "K=2, 6 pushes, u8 keys; unwind 8", timeout=400)
_c06("K06-heap-k1", "c06_topnheap_k1_m4", "TopNHeap K=1: results are top-K members, threshold = exact K-th best score", ["TopNHeap::{new,push,into_vec}", "ScoreHeapEntry::cmp"], "4 pushes, u8 scores as f32; unwind 8", timeout=120, group="heap")
_c06("K06-heap-k2", "c06_topnheap_k2_m5", "TopNHeap K=2, 5 pushes", ["TopNHeap::*"], "unwind 8", timeout=180, group="heap")
_c06("K06-heap-k3", "c06_topnheap_k3_m6", "TopNHeap K=3, 6 pushes", ["TopNHeap::*"], "unwind 8", timeout=400, tiers="t")
_c06("K06-heap-short", "c06_topnheap_k3_m2", "TopNHeap with fewer docs than K: all returned, no threshold", ["TopNHeap::*"], "K=3, 2 pushes", timeout=120)
K("C06", "K06-blockmax-tf", "c06_block_wand_tf_upper_bound", timeout=60, title="stored block-max term frequency decodes to an upper bound (exact below 255)",
  functions=["skip::encode_block_wand_max_tf", "skip::decode_block_wand_max_tf"], bounds="all u32", checks="full")
for _n, _h in (("positions", "c07_skip_roundtrip_positions"), ("freqs", "c07_skip_roundtrip_freqs")):
    K("C06", "K06-blockmax-skip-" + _n, _h, timeout=240,
      title="block-max metadata read back from the skip list bounds what was written (fieldnorm id exact, term freq >= written), record option " + _n,
      functions=["SkipSerializer::write_blockwand_max", "SkipReader::read_block_info", "decode_block_wand_max_tf"],
      bounds="2 full blocks + tail, all fields symbolic; unwind 6", assumes=["seek target <= TERMINATED"])
# ---------------------------------------------------------------------------------------------
# C07  inverted index codecs
# ---------------------------------------------------------------------------------------------
for _n, _h in (("positions", "c07_skip_roundtrip_positions"), ("freqs", "c07_skip_roundtrip_freqs"), ("basic", "c07_skip_roundtrip_basic")):
    K("C07", "K07-skip-" + _n, _h, timeout=240,
      title="skip list: SkipSerializer (2 full blocks + tail) -> SkipReader new/advance/seek, record option " + _n,
      functions=["SkipSerializer::{write_doc,write_term_freq,write_total_term_freq,write_blockwand_max}", "SkipReader::{new,read_block_info,advance,seek,block_info,byte_offset,position_offset,remaining_docs}", "compressed_block_size"],
      bounds="all field values symbolic (doc ids < TERMINATED, bit widths < 32 / <= 32), tail 0..127; unwind 6",
      assumes=["seek target <= TERMINATED", "bit widths in the range the block encoder returns"])
for _opt in ("positions", "basic"):
    K("C07", "K07-skip-reset-%s" % _opt, "c07_skip_reset_%s" % _opt, timeout=300,
      title="a SkipReader re-used for another term through reset() is observationally a freshly opened one wherever the previous term's reader had got to (delta-decoding base, byte / position offsets, remaining docs, block info; also after one more advance), record option %s" % _opt,
      functions=["SkipReader::{reset,new,read_block_info,advance}", "SkipSerializer::{write_doc,write_term_freq,write_total_term_freq,write_blockwand_max}"],
      bounds="previous list: 2 full blocks + tail, reader advanced 0, 1 or 2 times; next list: one full block + tail 0..127, or a short list (doc_freq < 128); all field values symbolic; unwind 6",
      assumes=["bit widths in the range the block encoder returns"])
K("C07", "K07-skip-short", "c07_skip_short_list", timeout=60, title="posting list shorter than a block: no skip data, VInt block info", functions=["SkipReader::{new,seek}"], bounds="doc_freq < 128")
K("C07", "K07-bitwidth-code", "c07_bitwidth_code", timeout=60, title="encode/decode_bitwidth round trip", functions=["skip::encode_bitwidth", "skip::decode_bitwidth"], bounds="all widths < 32", checks="full")
K("C07", "K07-search-block", "c07_search_block_lower_bound", timeout=300, title="in-block 8-ary search = lower bound on every sorted 128-array",
  functions=["postings::search_block", "block_search::kary_search::<8>"], bounds="128 symbolic sorted u32 + symbolic target <= last; unwind 130",
  assumes=["array sorted (non-decreasing)", "target <= last element (documented)"])
K("C07", "K07-vint-sorted", "c07_vint_tail_sorted_roundtrip", timeout=300, title="VInt posting tail (delta encoded doc ids) round trip, bytes consumed = produced",
  functions=["compression::vint::compress_sorted", "uncompress_sorted"], bounds="1..3 strictly increasing full-width ids, symbolic offset; unwind 7")
K("C07", "K07-vint-unsorted", "c07_vint_tail_unsorted_roundtrip", timeout=300, title="VInt posting tail (term freqs) round trip incl. until-end variant",
  functions=["compression::vint::compress_unsorted", "uncompress_unsorted", "uncompress_unsorted_until_end"], bounds="1..3 full-width values; unwind 7")
K("C07", "K07-block-size", "c07_compressed_block_size", timeout=60, title="compressed_block_size = 16 bytes per bit", functions=["compressed_block_size"], bounds="widths <= 64", checks="full")
K("C07", "K07-fieldnorm-floor", "c07_fieldnorm_floor", timeout=120, title="field-norm code = floor onto the table, exact <= 40, monotone",
  functions=["fieldnorm::code::fieldnorm_to_id", "id_to_fieldnorm"], bounds="all u32; unwind 12")
K("C07", "K07-fieldnorm-table", "c07_fieldnorm_table_strictly_increasing", timeout=60, title="the 256-entry field-norm table is strictly increasing and self-inverse",
  functions=["FIELD_NORMS_TABLE", "fieldnorm_to_id"], bounds="all 256 ids")
K("C07", "K07-fastcmp-short", "c07_fastcmp_len_0_16", crate="tantivy-stacker", timeout=600, checks="memory",
  title="term-key equality of the indexing hash map is byte-string equality (lengths 0..16), no out-of-bounds read",
  functions=["stacker::fastcmp::{fast_short_slice_compare,double_check_trick,short_compare}"], bounds="two keys of independent symbolic lengths 0..16 and symbolic bytes; unwind 42; with bounds / pointer checks (unsafe get_unchecked)")
K("C07", "K07-fastcmp-long", "c07_fastcmp_len_17_40", crate="tantivy-stacker", timeout=600, checks="memory",
  title="term-key equality of the indexing hash map is byte-string equality (lengths 17..40)",
  functions=["stacker::fastcmp::{fast_short_slice_compare,fast_nbyte_slice_compare}"], bounds="two keys of symbolic lengths 17..40; longer keys run the same 16-byte loop more often: outside the claim")
K("C07", "K07-fastcpy-short", "c07_fastcpy_len_0_32", crate="tantivy-stacker", timeout=600, checks="memory", tiers="t",
  title="arena copy: destination equals source, nothing else written (lengths 0..32)", functions=["stacker::fastcpy::{fast_short_slice_copy,short_copy,double_copy_trick}"], bounds="symbolic length 0..32 in a 70-byte buffer")
K("C07", "K07-fastcpy-long", "c07_fastcpy_len_33_70", crate="tantivy-stacker", timeout=600, checks="memory", tiers="t",
  title="arena copy (lengths 33..70; the avx branch is compiled out under Kani's target features)", functions=["stacker::fastcpy::fast_short_slice_copy"], bounds="symbolic length 33..70")
K("C07", "K07-vint-u32", "c07_vint_u32_roundtrip", crate="tantivy-common", timeout=120, title="common VInt u32: minimal length, reader stops exactly after the integer",
  functions=["common::vint::serialize_vint_u32", "read_u32_vint"], bounds="all u32, arbitrary trailing bytes; unwind 10")
K("C07", "K07-vint-u64", "c07_vint_u64_roundtrip", crate="tantivy-common", timeout=120, title="common VInt u64 round trip",
  functions=["VInt::serialize_into", "VInt::deserialize"], bounds="all u64; unwind 12")
for _w, _n in ((9, 5), (33, 5)):
    K("C07", "K07-bitpacker-w%d" % _w, "c08_bitpacker_w%d" % _w, crate="tantivy-bitpacker", timeout=120, group="c07-bp",
      title="bit-packer (term-info store / positions) round trip, width %d" % _w, functions=["BitPacker::{write,close}", "BitUnpacker::{new,get,get_slow_path}"],
      bounds="%d symbolic values of width %d, symbolic read index" % (_n, _w), assumes=["values fit the announced width"])

# ---------------------------------------------------------------------------------------------
# C08  fast fields (codec level)
# ---------------------------------------------------------------------------------------------
for _w, _n in ((0, 5), (1, 9), (7, 5), (8, 5), (9, 5), (31, 5), (32, 5), (33, 5), (56, 5), (64, 4)):
    K("C08", "K08-bitpacker-w%d" % _w, "c08_bitpacker_w%d" % _w, crate="tantivy-bitpacker", timeout=120,
      title="BitPacker -> BitUnpacker::get round trip, exact byte length, width %d" % _w,
      functions=["BitPacker::{write,flush,close}", "BitUnpacker::{new,get,get_slow_path}"],
      bounds="%d symbolic values of width %d, symbolic read index (fast and slow path)" % (_n, _w), assumes=["values fit the announced width"])
for _w in (9, 32, 33):
    K("C08", "K08-ids-for-range-w%d" % _w, "c08_ids_for_value_range_w%d" % _w, crate="tantivy-bitpacker", timeout=300,
      title="BitUnpacker::get_ids_for_value_range (dispatch + narrowing of the u64 bounds) = filter of the id range by value range, width %d" % _w,
      functions=["BitUnpacker::get_ids_for_value_range", "get_ids_for_value_range_slow"], bounds="3 values of width %d, all u64 bounds; unwind 10" % _w,
      stubs=(["BitUnpacker::get_ids_for_value_range_fast -> its specification (the SIMD kernel itself is an unsupported construct for CBMC)"] if _w <= 32 else []))
for _g in (1, 2, 3, 10, 1000):
    K("C08", "K08-range-gcd%d" % _g, "c08_range_transform_gcd%d" % _g, crate="tantivy-columnar", timeout=300 if _g == 1000 else 120, group="c08-range-gcd",
      title="range push-down through min/gcd transformation, gcd %d" % _g, functions=["bitpacked::transform_range_before_linear_transformation"],
      bounds="gcd = %d; packed <= 2^40; all u64 bounds" % _g, assumes=["min_value + gcd*packed does not overflow"])
K("C08", "K08-stacked-rows-v1", "c08_stacked_rows_with_values_multivalued_v1", crate="tantivy-columnar", timeout=600,
  title="stack merge: rows with values of a legacy (v1) multivalued input are its non-empty rows shifted by the table offset, in order",
  functions=["column_index::merge::stacked::get_doc_ids_with_values", "MultiValueIndexV1::{range,num_docs}"], bounds="3 rows, symbolic start offsets (array-backed ColumnValues trait object), table offset < 100000")
K("C08", "K08-stacked-rows-full", "c08_stacked_rows_with_values_full_and_empty", crate="tantivy-columnar", timeout=300,
  title="stack merge: a full input contributes its whole row range at its offset, an empty input nothing",
  functions=["column_index::merge::stacked::get_doc_ids_with_values"], bounds="<= 3 rows")
K("C08", "K08-stacked-counts-full", "c08_stacked_num_values_per_row_full", crate="tantivy-columnar", timeout=300,
  title="stack merge: a full input contributes one value per row to the merged start offsets",
  functions=["column_index::merge::stacked::get_num_values_iterator"], bounds="<= 3 rows")
K("C08", "K08-num-bits", "c08_num_bits_sufficient", crate="tantivy-columnar", timeout=60, title="compute_num_bits is the minimal sufficient width and one BitUnpacker accepts",
  functions=["tantivy_bitpacker::compute_num_bits"], bounds="all u64", checks="full")
K("C08", "K08-line", "c08_line_residuals_nonnegative_small", crate="tantivy-columnar", timeout=600,
  title="Line::train_from / eval: residuals of the trained points are small and reconstruct the values exactly",
  functions=["Line::train_from", "Line::eval", "compute_slope"], bounds="4 points base + offsets < 2^12, any u64 base (wrapping); residual < 2^14")
K("C08", "K08-line-single", "c08_line_single_value", crate="tantivy-columnar", timeout=60, title="single-value column: default line", functions=["Line::train_from"], bounds="")
K("C08", "K08-dense-rank-select", "c08_dense_rank_select_word", crate="tantivy-columnar", timeout=300,
  title="dense optional-index block: rank / select on a 64-bit word are inverse", functions=["dense::rank_u64", "dense::select_u64", "get_bit_at"], bounds="all u64 words, all positions for rank; select for ranks < 8; unwind 9")
K("C08", "K08-dense-bits", "c08_dense_bit_accessors", crate="tantivy-columnar", timeout=60, title="set_bit_at / get_bit_at", functions=["dense::set_bit_at", "get_bit_at"], bounds="all words", checks="full")
K("C08", "K08-sparse-block", "c08_sparse_block_rank_select", crate="tantivy-columnar", timeout=300,
  title="sparse optional-index block: contains / rank / rank_if_exists / select vs definition", functions=["SparseBlock::{binary_search,contains,rank,rank_if_exists,select}"], bounds="<= 4 sorted u16; unwind 6")
K("C08", "K08-compact-value", "c08_compact_space_value_roundtrip", crate="tantivy-columnar", timeout=1200,
  title="u128 / IP codec: value -> compact -> value is the identity on covered values, lands in the range's own compact interval, is strictly monotone; an uncovered value reports its insertion position",
  functions=["CompactSpace::{u128_to_compact,compact_to_u128,get_range_mapping}", "RangeMapping::{range_length,compact_end}"],
  bounds="3 covered ranges written down under the representation invariant (sorted, disjoint, compact_start(0) = 1, contiguous compact intervals), range lengths < 2^24, values < 2^127; all u128 probes; unwind 5",
  assumes=["the representation invariant of CompactSpace is the one `deserialize` / `get_compact_space` establish (compact_start chain starting at 1)"])
K("C08", "K08-compact-compact", "c08_compact_space_compact_roundtrip", crate="tantivy-columnar", timeout=600,
  title="u128 / IP codec: compact -> value -> compact is the identity on 1..=amplitude",
  functions=["CompactSpace::{compact_to_u128,u128_to_compact,amplitude_compact_space}"],
  bounds="3 covered ranges (as K08-compact-value); every compact id in 1..=amplitude; unwind 5")
K("C08", "K08-i64-order", "c03_i64_to_u64_order_roundtrip", crate="tantivy-common", timeout=60, title="monotonic mapping i64 <-> u64", functions=["common::i64_to_u64"], bounds="all", checks="full")
K("C08", "K08-f64-order", "c03_f64_to_u64_order_roundtrip", crate="tantivy-common", timeout=60, title="monotonic mapping f64 <-> u64", functions=["common::f64_to_u64"], bounds="all non-NaN", checks="full")

# ---------------------------------------------------------------------------------------------
# C12  BM25 arithmetic
# ---------------------------------------------------------------------------------------------
K("C12", "K12-tf-range", "c12_tf_factor_range", timeout=600, title="tf_factor in [0,1], 0 exactly at tf = 0 (one f32 division)", functions=["Bm25Weight::tf_factor"], bounds="all u32 tf, cache entry in [0.3, 1e30]")
K("C12", "K12-tf-shape", "c12_tf_factor_shape", timeout=600, tiers="t", title="tf_factor in [0,1], 0 at tf=0, monotone in tf; score = weight * tf_factor",
  functions=["Bm25Weight::tf_factor", "Bm25Weight::score"], bounds="all u32 tf, cache entry in [0.3, 1e30], weight in [0, 1e6]; one symbolic cache entry at a symbolic id",
  assumes=["the cache entry is in the range cached_tf_component can produce (>= K1*(1-B), finite)"])
K("C12", "K12-tf-antitone", "c12_tf_factor_antitone_in_norm", timeout=600, tiers="t", title="tf_factor is antitone in the field-length norm", functions=["Bm25Weight::tf_factor"], bounds="as above")
K("C12", "K12-cache-monotone", "c12_cached_tf_component_monotone", timeout=600, tiers="t", title="cached_tf_component monotone in the field norm, >= K1*(1-B)", functions=["bm25::cached_tf_component"], bounds="all u32 field norms, average in [1e-3, 1e9]")
K("C12", "K12-boost", "c12_boost_by", timeout=600, tiers="t", title="boost_by multiplies the weight; boost 1.0 is the identity", functions=["Bm25Weight::boost_by", "score"], bounds="weights, boosts in [0, 1e6]")
K("C12", "K12-idf-domain", "c12_idf_argument_domain", timeout=120, title="idf argument (N-n+0.5)/(n+0.5) is positive and finite for n <= N", functions=["bm25::idf (argument)"], bounds="N < 2^40")
K("C12", "K12-combiners", "c12_combiners", timeout=120, title="Sum / DisjunctionMax / DoNothing combiners = their definitions", functions=["SumCombiner", "DisjunctionMaxCombiner", "DoNothingCombiner"], bounds="3 clauses, u8 scores, tie breaker in quarters")
K("C12", "K12-fieldnorm-floor", "c07_fieldnorm_floor", timeout=120, title="field length quantisation (256 buckets) is the floor onto the table", functions=["fieldnorm_to_id", "id_to_fieldnorm"], bounds="all u32")
K("C12", "K12-reqopt-score", "c13_reqopt_prog2", timeout=120, title="required/optional: score = required (+ optional when it matches) however the document was reached", functions=["RequiredOptionalScorer::score"], bounds="2-call programs", assumes=[ARR])

# ---------------------------------------------------------------------------------------------
# C15  term dictionaries (kernel level)
# ---------------------------------------------------------------------------------------------
K("C15", "K15-vint", "c15_sstable_vint_roundtrip", crate="tantivy-sstable", timeout=120, title="sstable VInt round trip; trailing bytes untouched", functions=["sstable::vint::serialize", "deserialize_read"], bounds="all u64; unwind 12")
K("C15", "K15-prefix", "c15_common_prefix_len", crate="tantivy-sstable", timeout=120, title="common_prefix_len is the longest common prefix", functions=["sstable::common_prefix_len"], bounds="byte strings <= 3")
K("C15", "K15-separator", "c15_separator_key_contract", crate="tantivy-sstable", timeout=400, title="block-index separator key: left <= key < right, not longer than left", functions=["index::find_shorter_str_in_between"], bounds="all byte strings <= 3 with left < right; unwind 6")
K("C15", "K15-separator-refuses", "c15_separator_refuses_unordered_pair", crate="tantivy-sstable", timeout=400,
  title="keys are compared across block boundaries: shortening the previous block's last key against a next key that is not strictly greater panics (no silent acceptance of duplicates / out-of-order keys as first key of a block)",
  functions=["index::find_shorter_str_in_between"], bounds="all byte strings <= 3 bytes with left >= right; unwind 6",
  expected_panics=[r"sstable/src/index/mod\.rs:\d+ .*find_shorter_str_in_between"])
K("C15", "K15-range-slice", "c15_file_slice_for_range_covers_needed_blocks", crate="tantivy-sstable", timeout=600,
  title="bounded range streaming: the file slice chosen for a key range (with or without `limit`) covers every block that can hold one of the wanted keys",
  functions=["Dictionary::file_slice_for_range", "index::v2::SSTableIndex::{locate_with_key,locate_with_ord,get_block}", "FileSlice::{slice,read_bytes}"],
  bounds="dictionary written down directly: v2 block index of 3 blocks, symbolic 1-byte separator keys, byte ranges and first ordinals; symbolic 1-byte bounds of every kind (lower <= upper), optional limit < 10^6; the file handle records the requested byte range",
  assumes=["non-inverted range (a sorted map panics on an inverted one)"])
_DELTA_FN = ["DeltaWriter::{write_suffix,encode_keep_add,write_value}", "DeltaReader::{read_delta_key,read_keep_add,advance,common_prefix_len,suffix}", "BlockReader::{buffer,advance,offset,deserialize_u64,buffer_from_to,read_block}", "sstable::vint::{serialize,deserialize_read}"]
_DELTA_ASSUME = ["the block payload goes from DeltaWriter.block to the reader's BlockReader directly (state right after read_block() of a one-block file; flush_block / read_block framing is not in this obligation)",
                 "a later key of a block adds at least one byte (strictly increasing keys, K15-order)", "VoidValueWriter / VoidValueReader (values occupy no bytes)"]
K("C15", "K15-delta-nibble", "c15_delta_roundtrip_nibble", crate="tantivy-sstable", timeout=400, mem=14,
  title="front-coded block layer, one-byte form: every (keep, add, suffix) entry written into a block comes back unchanged, in order, and the block ends exactly after the last entry",
  functions=_DELTA_FN, bounds="2 entries; suffix lengths (2, 1); keep of the second entry symbolic in 0..15; symbolic suffix bytes; unwind 5", assumes=_DELTA_ASSUME)
K("C15", "K15-delta-escape-keep", "c15_delta_roundtrip_escape_keep", crate="tantivy-sstable", tiers="t", timeout=1800, mem=20,
  title="front-coded block layer, VInt escape taken for keep >= 16 (one-byte VInt): entries come back unchanged; the nibble form is never used for a keep it cannot hold",
  functions=_DELTA_FN, bounds="2 entries; suffix lengths (0, 2); keep symbolic in 16..127; unwind 11", assumes=_DELTA_ASSUME)
K("C15", "K15-delta-escape-keep2", "c15_delta_roundtrip_escape_keep2", crate="tantivy-sstable", tiers="t", timeout=1800, mem=24,
  title="front-coded block layer, VInt escape with a two-byte keep", functions=_DELTA_FN, bounds="2 entries; suffix lengths (0, 2); keep symbolic in 128..16383; unwind 11", assumes=_DELTA_ASSUME)
K("C15", "K15-delta-nibble-max", "c15_delta_roundtrip_nibble_max", crate="tantivy-sstable", tiers="t", timeout=1800, mem=20,
  title="front-coded block layer, one-byte form at its upper limit (add = 15)", functions=_DELTA_FN, bounds="2 entries; suffix lengths (15, 15); keep symbolic in 0..15; unwind 18", assumes=_DELTA_ASSUME)
K("C15", "K15-delta-escape-add", "c15_delta_roundtrip_escape_add", crate="tantivy-sstable", tiers="t", timeout=1800, mem=24,
  title="front-coded block layer, VInt escape taken for add >= 16", functions=_DELTA_FN, bounds="2 entries; suffix lengths (1, 16); keep symbolic in 0..15; unwind 18", assumes=_DELTA_ASSUME)
K("C15", "K15-order", "c15_insert_key_enforces_order", crate="tantivy-sstable", timeout=900,
  title="Writer::insert_key never silently accepts a key that is not strictly greater than the previous one",
  functions=["sstable::Writer::{new,insert,insert_key,insert_value}", "DeltaWriter::write_suffix"], bounds="two keys of <= 2 bytes; unwind 6",
  expected_panics=[r"Keys should be increasing", r"index out of bounds.*sstable/src/lib.rs"],
  assumes=["a rejection is the panic of insert_key's own assertion / index check (expected panics of this obligation)"])

# ---------------------------------------------------------------------------------------------
# C17  sorted index (kernel level)
# ---------------------------------------------------------------------------------------------
K("C17", "K17-mapping", "c17_docid_mapping_perm4", timeout=240, title="DocIdMapping from new->old is the inverse permutation; remap moves values accordingly",
  functions=["DocIdMapping::{from_new_id_to_old_id,get_new_doc_id,old_to_new_ids,remap,iter_old_doc_ids,len}"], bounds="all permutations of 4; unwind 6")
K("C17", "K17-validation", "c17_docid_mapping_validation", timeout=600, title="DocIdMapping::new_permutation accepts exactly the permutations",
  functions=["DocIdMapping::new_permutation"], bounds="3 ids < 8", stubs=["alloc::fmt::format -> empty String"])
K("C17", "K17-delete-rule", "c02_delete_rule", timeout=60, title="the delete rule compares per-document opstamps, whatever their order (sorted segments permute them)", functions=["DocToOpstampMapping::is_deleted"], bounds="4 docs, arbitrary u64 opstamps")

# ---------------------------------------------------------------------------------------------
# C02  kernels
# ---------------------------------------------------------------------------------------------
K("C02", "K02-delete-rule", "c02_delete_rule", timeout=60, title="a delete hits a document iff the document's opstamp is strictly smaller; no mapping = always", functions=["DocToOpstampMapping::is_deleted"], bounds="4 docs, arbitrary (non-monotone) u64 opstamps, any delete opstamp", checks="full")
K("C02", "K02-stamper", "c02_stamper", timeout=60, title="Stamper: strictly increasing, contiguous disjoint ranges, shared by clones, revert", functions=["Stamper::{new,stamp,stamps,revert}"], bounds="start < 2^62, n < 2^40")
K("C02", "K02-batch-stamps", "c02_batch_opstamps_shape", timeout=60, title="batch stamps: count member stamps, batch stamp greater than every member (arithmetic of get_batch_opstamps on the real Stamper)", functions=["Stamper::stamps"], bounds="count < 2^40")
K("C02", "K02-tinyset", "c02_tinyset_algebra", crate="tantivy-common", timeout=120, title="TinySet algebra: contains/insert/remove/len/ranges/pop_lowest", functions=["TinySet::*"], bounds="all 64-bit sets", checks="full")
for _n in (63, 64, 65, 130):
    K("C02", "K02-bitset-full-%d" % _n, "c02_bitset_full_%d" % _n, crate="tantivy-common", timeout=120, group="bitset-full",
      title="BitSet::with_max_value_and_full(%d): exactly n members (padding clear), insert/remove keep len" % _n, functions=["BitSet::{with_max_value_and_full,insert,remove,contains,len,tinyset}"], bounds="n = %d" % _n)
for _n in (64, 70, 129):
    K("C02", "K02-alive-codec-%d" % _n, "c02_alive_bitset_codec_%d" % _n, timeout=300, group="alive-codec",
      title="delete bitset codec: write_alive_bitset -> AliveBitSet::open -> is_alive / num_alive_docs, max_doc %d" % _n,
      functions=["alive_bitset::write_alive_bitset", "AliveBitSet::{open,is_alive,is_deleted,num_alive_docs}", "BitSet::serialize", "ReadOnlyBitSet::{open,contains,len}"],
      bounds="max_doc = %d, two symbolic removals, symbolic query; unwind 12" % _n)

# ---------------------------------------------------------------------------------------------
# C05 (kernel), C18, C19, C20
# ---------------------------------------------------------------------------------------------
K("C05", "K05-ownedbytes", "c05_ownedbytes_views_compose", crate="ownedbytes", timeout=400, title="OwnedBytes slice / split / advance compose by offsets; earlier views are not disturbed",
  functions=["OwnedBytes::{new,slice,split,advance,as_slice,len}"], bounds="8-byte backing array, symbolic cut points; unwind 10")
K("C18", "K18-lock-machine-2", "c18_lock_state_machine_2steps", timeout=1800, tiers="t", mem=30, title="default Directory::acquire_lock + DirectoryLockGuard: at most one live guard; acquire Ok iff free; failed acquire changes nothing; drop frees",
  functions=["Directory::acquire_lock (default)", "directory::try_acquire_lock", "DirectoryLockGuard::drop", "retry_policy", "RetryPolicy::wait_and_retry"],
  bounds="every program of 2 steps over {acquire, acquire with injected I/O error, drop guard}; unwind 3 (measured: no answer in 900 s - kept in the thorough tier only)",
  assumes=["stub directory with one lock slot and create-new semantics of open_write (what MmapDirectory / RamDirectory provide)"])
K("C18", "K18-lock-io-error", "c18_lock_io_error_then_acquire", timeout=300, title="an I/O error while creating the lock file is reported as LockError::IoError and leaves the lock free",
  functions=["Directory::acquire_lock (default)", "try_acquire_lock"], bounds="fixed scenario: failing acquire, then acquire")
K("C18", "K18-lock-fixed", "c18_lock_fixed_scenario", timeout=300, title="acquire / acquire -> LockBusy / drop / acquire on the default lock implementation",
  functions=["Directory::acquire_lock (default)", "try_acquire_lock", "DirectoryLockGuard::drop"], bounds="fixed 4-call scenario")
K("C18", "K18-lock-statics", "c18_lock_statics", timeout=300, title="INDEX_WRITER_LOCK is non-blocking, META_LOCK blocking, different files",
  functions=["INDEX_WRITER_LOCK", "META_LOCK", "retry_policy"], bounds="", stubs=["std::thread::current::current", "std::thread::functions::park"])
K("C19", "K19-simple-utf8-2", "c19_simple_tokenizer_utf8_len2", timeout=1800, tiers="t", title="SimpleTokenizer offsets on every valid 2-byte UTF-8 text, every classification",
  functions=["SimpleTokenizer::token_stream", "SimpleTokenStream::{advance,search_token_end}"], bounds="all valid UTF-8 texts of 2 bytes",
  stubs=["char::is_alphanumeric -> arbitrary class function of the code point (sound for offset obligations)"], assumes=["token String pre-reserved (8 bytes)"])
K("C19", "K19-simple-ascii-3", "c19_simple_tokenizer_ascii_len3", timeout=900, title="SimpleTokenizer offsets on every 3-byte ASCII text, every classification",
  functions=["SimpleTokenizer::token_stream", "SimpleTokenStream::{advance,search_token_end}"], bounds="all ASCII texts of 3 bytes",
  stubs=["char::is_alphanumeric -> arbitrary class function"], assumes=["token String pre-reserved"])
K("C19", "K19-ws-utf8-2", "c19_whitespace_tokenizer_utf8_len2", timeout=900, title="WhitespaceTokenizer offsets / content on every valid 2-byte UTF-8 text",
  functions=["WhitespaceTokenizer::token_stream", "WhitespaceTokenStream::{advance,search_token_end}"], bounds="all valid UTF-8 texts of 2 bytes", assumes=["token String pre-reserved"])
K("C19", "K19-ws-utf8-3", "c19_whitespace_tokenizer_utf8_len3", timeout=1800, tiers="t", title="WhitespaceTokenizer, 3 bytes", functions=["WhitespaceTokenizer::*"], bounds="all valid UTF-8 texts of 3 bytes")
K("C19", "K19-ranges", "c19_merge_overlapping_ranges_n2", timeout=600, title="snippet highlight ranges: merged output sorted, disjoint, same union",
  functions=["snippet::merge_overlapping_ranges"], bounds="2 ranges (concrete count) with bounds < 1000, sorted and deduplicated as sort_and_deduplicate_ranges returns them")
K("C19", "K19-ranges-3", "c19_merge_overlapping_ranges_n3", timeout=300, title="snippet range merging, 3 ranges", functions=["snippet::merge_overlapping_ranges"], bounds="<= 3 ranges")
K("C19", "K19-ngram-12", "c19_ngram_len3_min1_max2", timeout=900, group="ngram", title="NgramTokenizer (all / prefix-only): offsets inside the text on char boundaries, token = slice, 1..2 characters, lexicographic order, exactly the n-grams (count)",
  functions=["NgramTokenizer::{new,token_stream}", "NgramTokenStream::advance", "StutteringIterator::{new,next}", "CodepointFrontiers::next", "utf8_codepoint_width"], bounds="all valid UTF-8 texts of 3 bytes, min_gram 1, max_gram 2, prefix_only symbolic", assumes=["token String pre-reserved (8 bytes)"])
K("C19", "K19-ngram-23", "c19_ngram_len3_min2_max3", timeout=900, group="ngram", title="NgramTokenizer, 2..3 characters",
  functions=["NgramTokenizer::*", "StutteringIterator::{new,next}", "CodepointFrontiers::next"], bounds="all valid UTF-8 texts of 3 bytes, min_gram 2, max_gram 3, prefix_only symbolic", assumes=["token String pre-reserved"])
K("C19", "K19-ngram-13-len4", "c19_ngram_len4_min1_max3", timeout=1800, tiers="t", mem=40, title="NgramTokenizer, 1..3 characters, 4-byte texts",
  functions=["NgramTokenizer::*", "StutteringIterator::{new,next}", "CodepointFrontiers::next"], bounds="all valid UTF-8 texts of 4 bytes, min_gram 1, max_gram 3", assumes=["token String pre-reserved"])
K("C20", "K20-proxy-len2", "c20_footer_proxy_hashes_accepted_bytes_len2", timeout=900, title="FooterProxy hashes exactly the bytes the underlying writer accepted (short writes)",
  functions=["FooterProxy::{new,write}", "crc32fast::Hasher::{update,finalize} (baseline)"], bounds="2 bytes, <= 2 partial writes; unwind 6",
  stubs=["crc32fast::Hasher::new -> baseline (table) implementation"])
K("C20", "K20-proxy-len3", "c20_footer_proxy_hashes_accepted_bytes_len3", timeout=1800, tiers="t", title="FooterProxy hashes exactly the accepted bytes, 3 bytes / 3 short writes",
  functions=["FooterProxy::{new,write}"], bounds="3 bytes, <= 3 partial writes", stubs=["crc32fast::Hasher::new -> baseline"])
K("C20", "K20-crc-len2", "c20_crc_detects_byte_damage_len2", timeout=300, group="crc-damage", title="CRC-32 detects any single byte substitution / bit flip, body of 2 bytes", functions=["crc32fast baseline"], bounds="", stubs=["Hasher::new -> baseline"])
K("C20", "K20-crc-len4", "c20_crc_detects_byte_damage_len4", timeout=600, group="crc-damage", title="CRC-32 detects any single byte substitution / bit flip, body of 4 bytes", functions=["crc32fast baseline"], bounds="", stubs=["Hasher::new -> baseline"])
K("C20", "K20-crc-incremental", "c20_crc_incremental", timeout=300, title="split updates hash like one update", functions=["crc32fast::Hasher::update"], bounds="3 bytes, any cut", stubs=["Hasher::new -> baseline"])
K("C20", "K20-version-gate", "c20_version_gate", timeout=300, title="Footer::is_compatible accepts exactly the supported index format versions", functions=["Footer::is_compatible"], bounds="all u32 versions",
  stubs=["std::thread::current::current", "std::thread::functions::park"])

from registry_m import *  # noqa
