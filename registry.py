"""The obligations. Timeouts are ~3x the time measured on the 16-core sandbox (quick tier);
the thorough tier multiplies them by obligations.THOROUGH_TIMEOUT_FACTOR."""
from obligations import K, M

ARR = ("leaves are `Arr`: <= 3 symbolic strictly increasing doc ids below the stated maximum, using the "
       "trait's default seek/seek_danger/fill_buffer/fill_bitset_block")
SEEK_PRE = "seek target t satisfies doc() <= t <= TERMINATED (DocSet::seek's documented precondition)"
GO_FIRST = [("go_to_first_doc", 9)]

# ---------------------------------------------------------------------------------------------
# C13  every DocSet is one sorted sequence under any mix of advance and seek
# ---------------------------------------------------------------------------------------------
def _c13(oid, harness, fns, bounds, tiers="qt", timeout=300, **kw):
    K("C13", oid, harness, tiers=tiers, timeout=timeout, functions=fns, bounds=bounds,
      assumes=[ARR, SEEK_PRE], **kw)

_c13("K13-inter2-p2", "c13_intersection2_prog2",
     ["Intersection::<ConstScorer<Arr>,ConstScorer<Arr>>::{new,advance,seek,doc,score}", "go_to_first_doc", "DocSet::seek (default)", "DocSet::seek_danger (default)"],
     "2 leaves x <=3 docs, ids < 8192, every program of 2 calls over {advance, seek(t)}; unwind 5, go_to_first_doc 9",
     title="Intersection (2-way) = sorted A∩B under any 2-call program; score = sum", unwindset=GO_FIRST, timeout=900)
_c13("K13-inter2-p3", "c13_intersection2_prog3",
     ["Intersection::{new,advance,seek,doc,score}", "go_to_first_doc"],
     "2 leaves x <=3 docs, ids < 300, programs of 3 calls; unwind 5, go_to_first_doc 9",
     title="Intersection (2-way), 3-call programs", tiers="t", unwindset=GO_FIRST, timeout=900)
_c13("K13-inter3-p2", "c13_intersection3_prog2",
     ["Intersection::{new,advance,seek}", "go_to_first_doc", "others: Vec<ConstScorer<Arr>>"],
     "3 leaves (3,3,2 docs), ids < 300, programs of 2 calls; unwind 5",
     title="Intersection with `others` = A∩B∩C", tiers="t", unwindset=GO_FIRST, timeout=900)
_c13("K13-excl1-p2", "c13_exclude1_prog2", ["Exclude::<ConstScorer<Arr>,ConstScorer<Arr>>::{new,advance,seek,doc,score}", "ExclusionSet::contains"],
     "2 leaves x <=3 docs, ids < 300, programs of 2 calls; unwind 5", title="Exclude = A∖B", timeout=300)
_c13("K13-excl1-p3", "c13_exclude1_prog3", ["Exclude::{new,advance,seek}"], "as above, 3 calls", title="Exclude, 3-call programs", tiers="t", timeout=600)
_c13("K13-excl2-p2", "c13_exclude2_prog2", ["Exclude::<_, Vec<_>>::{new,advance,seek}", "<Vec<T> as ExclusionSet>::contains"],
     "3 leaves x <=3 docs, ids < 300, programs of 2 calls; unwind 5", title="Exclude with several excluders = A∖(B∪C)", tiers="t", timeout=900)
_c13("K13-sunion-p2", "c13_simple_union_prog2", ["SimpleUnion::<Arr>::{build,advance,seek,doc,advance_to_next}"],
     "2 leaves x <=3 docs, ids < 300, programs of 2 calls; unwind 5", title="SimpleUnion = A∪B", timeout=900)
_c13("K13-sunion-p3", "c13_simple_union_prog3", ["SimpleUnion::{build,advance,seek}"], "as above, 3 calls", title="SimpleUnion, 3-call programs", tiers="t", timeout=900)
_c13("K13-reqopt-p2", "c13_reqopt_prog2", ["RequiredOptionalScorer::<_,_,SumCombiner>::{advance,seek,doc,score}"],
     "2 leaves x <=3 docs, programs of 2 calls with optional score reads in between; unwind 5",
     title="RequiredOptional = required set; score = req (+ opt when it matches), cached value stable", timeout=120)
_c13("K13-reqopt-p3", "c13_reqopt_prog3", ["RequiredOptionalScorer::{advance,seek,doc,score}"], "as above, 3 calls", title="RequiredOptional, 3-call programs", timeout=180)
_c13("K13-wrappers-p3", "c13_const_boost_wrappers_prog3", ["BoostScorer::{advance,seek,fill_buffer,count_including_deleted,score}", "ConstScorer::{...}", "DocSet::{fill_buffer,count_including_deleted} (defaults)"],
     "1 leaf x <=3 docs, programs of 3 calls over {advance, seek, fill_buffer, count}; boost any u8; unwind 8",
     title="Boost/Const wrappers are transparent; score = const*boost", timeout=180)
_c13("K13-all-p2", "c13_all_scorer_prog2", ["AllScorer::{new,advance,seek,fill_buffer,doc,score}"],
     "1 <= max_doc <= 200, programs of 2 calls over {advance, seek, fill_buffer}; unwind 66",
     title="AllScorer enumerates 0..max_doc", timeout=400)
_c13("K13-empty", "c13_empty_scorer", ["EmptyScorer::{advance,seek,doc,count_including_deleted}"], "no loops", title="EmptyScorer stays TERMINATED", timeout=60)
_c13("K13-bitset-p2", "c13_bitset_docset_prog2", ["BitSetDocSet::{from,advance,seek,doc}", "BitSet::{with_max_value,insert,tinyset,first_non_empty_bucket}", "TinySet::{pop_lowest,range_greater_or_equal,intersect}"],
     "max_value = 130 (3 words, concrete), <=3 docs, programs of 2 calls; unwind 6", title="BitSetDocSet = members in order", timeout=600)
_c13("K13-bitset-p3", "c13_bitset_docset_prog3", ["BitSetDocSet::{from,advance,seek,doc}"], "as above, 3 calls", title="BitSetDocSet, 3-call programs", tiers="t", timeout=900)
_c13("K13-bitsetunion-p2", "c13_bitset_posting_union_prog2", ["BitSetPostingUnion::{build,advance,seek,doc}"],
     "2 leaves x <=2 docs, ids < 130", title="BitSetPostingUnion follows its bitset", tiers="t", timeout=900)
_c13("K13-inter2-fillbuf", "c13_intersection2_fillbuf", ["Intersection::{new}", "DocSet::fill_buffer (default)"], "one fill_buffer call from the first document",
     title="fill_buffer on Intersection yields the remaining sequence", tiers="t", unwindset=GO_FIRST, timeout=900)
_c13("K13-inter2-bitset", "c13_intersection2_bitset_block", ["Intersection::{new}", "DocSet::fill_bitset_block (default)"], "one fill_bitset_block(min_doc >= doc) call",
     title="fill_bitset_block on Intersection = window membership + next doc", tiers="t", unwindset=GO_FIRST, timeout=900)
_c13("K13-excl1-fillbuf", "c13_exclude1_fillbuf", ["Exclude::{new,advance}", "DocSet::fill_buffer (default)"], "one call", title="fill_buffer on Exclude", tiers="t", timeout=900)
_c13("K13-excl1-count", "c13_exclude1_count", ["Exclude::{new,advance}", "DocSet::count_including_deleted (default)"], "one call", title="count_including_deleted on Exclude", tiers="t", timeout=900)
_c13("K13-sunion-count", "c13_simple_union_count", ["SimpleUnion::{build,count_including_deleted,advance_to_next}"], "one call", title="SimpleUnion::count_including_deleted = |A∪B|", tiers="t", timeout=900)
_c13("K13-sunion-bitset", "c13_simple_union_bitset_block", ["SimpleUnion::{build,seek,advance}", "DocSet::fill_bitset_block (default)"], "one call", title="fill_bitset_block on SimpleUnion", tiers="t", timeout=900)
_c13("K13-disj-p2", "c13_disjunction_msm2_prog2", ["Disjunction::<ConstScorer<Arr>,SumCombiner>::{new,advance,doc,score}", "BinaryHeap<ScorerWrapper<_>>", "DocSet::seek (default)"],
     "3 leaves x <=2 docs, minimum_matches_required = 2, programs of 2 calls; unwind 5 + swap loops 20",
     title="Disjunction(min-should-match 2) = docs in >=2 leaves; score = sum of matching", tiers="t", unwindset=[("swap_nonoverlapping", 20)], timeout=900)

from registry_m import *  # noqa
